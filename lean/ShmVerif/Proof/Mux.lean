import ShmVerif.Model.Mux
/-!
  Invariants of the message-level protocol model: per-stream order across the two channels (shared queue, control
  connection), isolation, conservation of messages.
-/
namespace Mux
open List

/-! ### plumbing -/

@[simp] theorem upd_same {α} (f : Side → α) (x : Side) (v : α) : upd f x v x = v := by simp [upd]
theorem upd_other {α} (f : Side → α) (x y : Side) (v : α) (h : y ≠ x) : upd f x v y = f y := by simp [upd, h]

@[simp] theorem setMe_ch (s : Sys) (x : Side) (e : MEnd) : (s.setMe x e).ch = s.ch := rfl
@[simp] theorem setCh_ends (s : Sys) (x : Side) (c : Chan) : (s.setCh x c).ends = s.ends := rfl
@[simp] theorem setCh_me (s : Sys) (x y : Side) (c : Chan) : (s.setCh x c).me y = s.me y := rfl
@[simp] theorem setMe_me_same (s : Sys) (x : Side) (e : MEnd) : (s.setMe x e).me x = e := by simp [Sys.setMe, Sys.me]
theorem setMe_me_other (s : Sys) (x y : Side) (e : MEnd) (h : y ≠ x) : (s.setMe x e).me y = s.me y := by
  simp [Sys.setMe, Sys.me, upd, h]
@[simp] theorem setCh_ch_same (s : Sys) (x : Side) (c : Chan) : (s.setCh x c).ch x = c := by simp [Sys.setCh]
theorem setCh_ch_other (s : Sys) (x y : Side) (c : Chan) (h : y ≠ x) : (s.setCh x c).ch y = s.ch y := by
  simp [Sys.setCh, upd, h]
@[simp] theorem setMe_sent (s : Sys) (x : Side) (e : MEnd) : (s.setMe x e).sent = s.sent := rfl
@[simp] theorem setMe_arrived (s : Sys) (x : Side) (e : MEnd) : (s.setMe x e).arrived = s.arrived := rfl
@[simp] theorem setMe_recreated (s : Sys) (x : Side) (e : MEnd) : (s.setMe x e).recreated = s.recreated := rfl
@[simp] theorem setCh_sent (s : Sys) (x : Side) (c : Chan) : (s.setCh x c).sent = s.sent := rfl
@[simp] theorem setCh_arrived (s : Sys) (x : Side) (c : Chan) : (s.setCh x c).arrived = s.arrived := rfl
@[simp] theorem setCh_recreated (s : Sys) (x : Side) (c : Chan) : (s.setCh x c).recreated = s.recreated := rfl

theorem peer_ne (x : Side) : x.peer ≠ x := by cases x <;> simp [Side.peer]
theorem peer_peer (x : Side) : x.peer.peer = x := by cases x <;> rfl
theorem eq_or_peer (x y : Side) : y = x ∨ y = x.peer := by cases x <;> cases y <;> simp [Side.peer]

/-! ### projections -/

def qdata (j : Nat) (q : List QEl) : List Nat := (q.filter (fun el => el.sid == j && !el.isClose)).map (·.msg)
def qFor (j : Nat) (q : List QEl) : List QEl := q.filter (fun el => el.sid == j)
def evFor (j : Nat) : Ev → Bool
  | .polling => false
  | .close i => i == j
  | .fb i _ => i == j
def kdata (j : Nat) (k : List Ev) : List Nat :=
  k.filterMap (fun ev => match ev with | .fb i m => if i = j then some m else none | _ => none)
def beforePoll (k : List Ev) : List Ev := k.takeWhile (fun ev => ev != .polling)

def tagOf (x : Side) (j : Nat) (l : List (Side × Nat × Nat)) : List Nat :=
  l.filterMap (fun t => if t.1 = x ∧ t.2.1 = j then some t.2.2 else none)

theorem tagOf_append (x : Side) (j : Nat) (l1 l2 : List (Side × Nat × Nat)) :
    tagOf x j (l1 ++ l2) = tagOf x j l1 ++ tagOf x j l2 := by simp [tagOf, filterMap_append]

theorem qdata_append (j : Nat) (a b : List QEl) : qdata j (a ++ b) = qdata j a ++ qdata j b := by
  simp [qdata, filter_append]
theorem kdata_append (j : Nat) (a b : List Ev) : kdata j (a ++ b) = kdata j a ++ kdata j b := by
  simp [kdata, filterMap_append]
theorem qFor_append (j : Nat) (a b : List QEl) : qFor j (a ++ b) = qFor j a ++ qFor j b := by simp [qFor, filter_append]

theorem kdata_nil_of_no_ev (j : Nat) (k : List Ev) (h : ∀ ev ∈ k, evFor j ev = false) : kdata j k = [] := by
  induction k with
  | nil => rfl
  | cons ev r ih =>
    have h1 := h ev mem_cons_self
    have h2 := ih (fun e he => h e (mem_cons_of_mem _ he))
    cases ev with
    | polling => simpa [kdata] using h2
    | close i => simpa [kdata] using h2
    | fb i m =>
      simp only [evFor, beq_eq_false_iff_ne, ne_eq] at h1
      simp only [kdata, filterMap_cons, h1, if_false]
      exact h2

theorem qdata_nil_of_qFor_nil (j : Nat) (q : List QEl) (h : qFor j q = []) : qdata j q = [] := by
  induction q with
  | nil => rfl
  | cons el r ih =>
    simp only [qFor, filter_cons] at h
    by_cases he : (el.sid == j) = true
    · simp [he] at h
    · simp only [he] at h
      simp only [qdata, filter_cons, he, Bool.false_and]
      exact ih h

/-- appending behind a polling event does not change what precedes the first polling event -/
theorem beforePoll_append_of_mem (k : List Ev) (e : List Ev) (h : Ev.polling ∈ k) : beforePoll (k ++ e) = beforePoll k := by
  induction k with
  | nil => simp at h
  | cons ev r ih =>
    simp only [beforePoll, cons_append, takeWhile_cons]
    by_cases hp : ev = .polling
    · subst hp; simp
    · have : (ev != Ev.polling) = true := by simpa using hp
      simp only [this, if_true]
      rcases mem_cons.mp h with h1 | h1
      · exact absurd h1.symm hp
      · have := ih h1
        simp only [beforePoll] at this
        rw [this]

theorem beforePoll_tail_subset (ev : Ev) (r : List Ev) (hev : ev ≠ .polling) : ∀ e ∈ beforePoll r, e ∈ beforePoll (ev :: r) := by
  intro e he
  have : (ev != Ev.polling) = true := by simpa using hev
  simp only [beforePoll, takeWhile_cons, this, if_true]
  exact mem_cons_of_mem _ he

theorem head_mem_beforePoll (ev : Ev) (r : List Ev) (hev : ev ≠ .polling) : ev ∈ beforePoll (ev :: r) := by
  have : (ev != Ev.polling) = true := by simpa using hev
  simp [beforePoll, takeWhile_cons, this]

end Mux

namespace Mux
open List

/-! ### stream table lemmas -/

theorem find_upd (e : MEnd) (id j : Nat) (f : MStream → MStream) (hf : ∀ y, (f y).id = y.id) :
    (e.upd id f).find j = if j = id then (e.find j).map f else e.find j := by
  unfold MEnd.find MEnd.upd
  simp only
  rw [find?_map]
  have hcomp : ((fun x : MStream => decide (x.id = j)) ∘ fun x => if x.id = id then f x else x) = fun x => decide (x.id = j) := by
    funext x
    simp only [Function.comp]
    split
    · rw [hf]
    · rfl
  rw [hcomp]
  cases hfind : find? (fun x : MStream => decide (x.id = j)) e.streams with
  | none => simp
  | some st =>
    have hid : st.id = j := by simpa using find?_some hfind
    by_cases hj : j = id
    · simp [hj, hid ▸ hj]
    · have : ¬ st.id = id := fun h => hj (hid ▸ h)
      simp [hj, this]

theorem find_upd_isSome (e : MEnd) (id j : Nat) (f : MStream → MStream) (hf : ∀ y, (f y).id = y.id) :
    ((e.upd id f).find j).isSome = (e.find j).isSome := by
  rw [find_upd e id j f hf]; split <;> simp

/-- getStream keeps every other stream object and makes sure the addressed one exists when it reports `found` -/
theorem getStream_find_other (e : MEnd) (id j : Nat) (o : Bool) (hj : j ≠ id) :
    ((getStream e id o).1).find j = e.find j := by
  unfold getStream
  split
  · rfl
  · split
    · simp only [MEnd.find]
      rw [find?_append]
      have h1 : find? (fun x => decide (x.id = j)) [({ id := id } : MStream)] = none := by
        simp; exact fun h => hj h.symm
      rw [h1, Option.or_none]
      induction e.streams with
      | nil => rfl
      | cons a r ih =>
        simp only [filter_cons]
        by_cases ha : a.id = id
        · have : decide (a.id ≠ id) = false := by simp [ha]
          have h2 : decide (a.id = j) = false := by simp [ha]; exact fun h => hj h.symm
          rw [this]
          simp only [Bool.false_eq_true, if_false, find?_cons, h2, ih]
        · have : decide (a.id ≠ id) = true := by simp [ha]
          simp only [this, if_true, find?_cons, ih]
    · rfl

theorem getStream_find_isSome (e : MEnd) (id j : Nat) (o : Bool) (h : (e.find j).isSome) :
    (((getStream e id o).1).find j).isSome := by
  by_cases hj : j = id
  · subst hj
    unfold getStream
    split
    · exact h
    · split
      · simp only [MEnd.find, find?_append]
        cases hf : find? (fun x => decide (x.id = j)) (filter (fun x => decide (x.id ≠ j)) e.streams) with
        | some v => simp
        | none => simp
      · exact h
  · rw [getStream_find_other e id j o hj]; exact h

theorem getStream_table_mono (e : MEnd) (id : Nat) (o : Bool) (i : Nat) (h : e.registered i = true) :
    ((getStream e id o).1).registered i = true := by
  unfold getStream
  split
  · exact h
  · split
    · simp only [MEnd.registered] at h ⊢; simp at h ⊢; exact Or.inl h
    · exact h

end Mux

namespace Mux
open List

/-! ### frame lemmas for the receiving side -/

/-- what a change of an end may do to stream `j` without endangering the sender-side invariant:
    the object stays, fall-back stays fall-back, non-open stays non-open -/
def Harmless (e e' : MEnd) (j : Nat) : Prop :=
  ∀ st', e'.find j = some st' → ∃ st, e.find j = some st ∧ (st.inFb = true → st'.inFb = true) ∧ (st.state ≠ .opened → st'.state ≠ .opened)

theorem harmless_refl (e : MEnd) (j : Nat) : Harmless e e j := fun st' h => ⟨st', h, fun h => h, fun h => h⟩

theorem harmless_trans {e1 e2 e3 : MEnd} {j : Nat} (h12 : Harmless e1 e2 j) (h23 : Harmless e2 e3 j) : Harmless e1 e3 j := by
  intro st3 h3
  obtain ⟨st2, h2, a2, b2⟩ := h23 st3 h3
  obtain ⟨st1, h1, a1, b1⟩ := h12 st2 h2
  exact ⟨st1, h1, fun h => a2 (a1 h), fun h => b2 (b1 h)⟩

theorem harmless_upd (e : MEnd) (id j : Nat) (f : MStream → MStream) (hf : ∀ y, (f y).id = y.id)
    (h1 : ∀ y, y.inFb = true → (f y).inFb = true) (h2 : ∀ y, y.state ≠ .opened → (f y).state ≠ .opened) :
    Harmless e (e.upd id f) j := by
  intro st' hst'
  rw [find_upd e id j f hf] at hst'
  split at hst'
  · cases hfind : e.find j with
    | none => simp [hfind] at hst'
    | some st =>
      simp only [hfind, Option.map_some, Option.some.injEq] at hst'
      subst hst'
      exact ⟨st, rfl, h1 st, h2 st⟩
  · exact ⟨st', hst', fun h => h, fun h => h⟩

theorem halfClose_id (y : MStream) : (halfClose y).id = y.id := by unfold halfClose; split <;> rfl
theorem halfClose_inFb (y : MStream) : (halfClose y).inFb = y.inFb := by unfold halfClose; split <;> rfl
theorem halfClose_notOpen (y : MStream) (h : y.state ≠ .opened) : (halfClose y).state ≠ .opened := by
  unfold halfClose; split <;> simp_all

structure RecvFrame (s s' : Sys) (y : Side) : Prop where
  ch : s'.ch = s.ch
  sent : s'.sent = s.sent
  other : ∀ x, x ≠ y → s'.me x = s.me x
  recOther : ∀ x j, x ≠ y → ((x, j) ∈ s'.recreated ↔ (x, j) ∈ s.recreated)
  recMono : ∀ p, p ∈ s.recreated → p ∈ s'.recreated
  some_ : ∀ j, ((s.me y).find j).isSome → ((s'.me y).find j).isSome
  /-- per stream of the receiving end: untouched in the harmful sense, or freshly created, or flagged as re-created -/
  eff : ∀ j, Harmless (s.me y) (s'.me y) j ∨ (s.me y).find j = none ∨ (y, j) ∈ s'.recreated

theorem closeNote_frame (s : Sys) (y : Side) (i : Nat) :
    RecvFrame s (closeNote s y i) y ∧ (closeNote s y i).arrived = s.arrived := by
  unfold closeNote
  split
  · refine ⟨⟨rfl, rfl, fun x hx => setMe_me_other s y x _ hx, fun _ _ _ => Iff.rfl, fun _ h => h, ?_, ?_⟩, rfl⟩
    · intro j hj
      rw [setMe_me_same, find_upd_isSome _ _ _ _ halfClose_id]; exact hj
    · intro j
      left
      rw [setMe_me_same]
      exact harmless_upd _ _ _ _ halfClose_id (fun y h => by rw [halfClose_inFb]; exact h) halfClose_notOpen
  · exact ⟨⟨rfl, rfl, fun _ _ => rfl, fun _ _ _ => Iff.rfl, fun _ h => h, fun _ h => h, fun j => Or.inl (harmless_refl _ _)⟩, rfl⟩

theorem getStream_harmless_or (e : MEnd) (id j : Nat) (o : Bool) :
    Harmless e (getStream e id o).1 j ∨ e.find j = none ∨ (j = id ∧ recreates e id = true) := by
  by_cases hj : j = id
  · subst hj
    unfold getStream
    split
    · exact Or.inl (harmless_refl _ _)
    · rename_i hreg
      split
      · rename_i hsrv
        cases hf : e.find j with
        | none => exact Or.inr (Or.inl rfl)
        | some st =>
          right; right
          refine ⟨rfl, ?_⟩
          simp only [recreates, hf, Option.isSome_some, Bool.and_true]
          simp only [Bool.not_eq_true] at hreg
          simp [hreg, hsrv.1]
      · exact Or.inl (harmless_refl _ _)
  · left
    intro st' hst'
    rw [getStream_find_other e id j o hj] at hst'
    exact ⟨st', hst', fun h => h, fun h => h⟩

theorem offer_frame (s : Sys) (y : Side) (i m : Nat) (v : Bool) :
    RecvFrame s (offer s y i m v) y ∧ (offer s y i m v).arrived = s.arrived ++ [(y, i, m)] := by
  have hgs := fun j => getStream_harmless_or (s.me y) i j true
  have hsome := fun j h => getStream_find_isSome (s.me y) i j true h
  unfold offer
  rcases hg : getStream (s.me y) i true with ⟨e', found⟩
  rw [hg] at hgs hsome
  simp only at hgs hsome ⊢
  -- the intermediate state s1 (after getStream, with the ghost fields)
  have hrecO : ∀ (x : Side) (j : Nat), x ≠ y →
      ((x, j) ∈ (if recreates (s.me y) i = true then s.recreated ++ [(y, i)] else s.recreated) ↔ (x, j) ∈ s.recreated) := by
    intro x j hx
    split
    · simp only [mem_append, mem_singleton, Prod.mk.injEq]
      constructor
      · rintro (h | ⟨h, _⟩)
        · exact h
        · exact absurd h hx
      · exact Or.inl
    · exact Iff.rfl
  have hrecM : ∀ p, p ∈ s.recreated → p ∈ (if recreates (s.me y) i = true then s.recreated ++ [(y, i)] else s.recreated) := by
    intro p hp; split
    · exact mem_append_left _ hp
    · exact hp
  have heff1 : ∀ j, Harmless (s.me y) e' j ∨ (s.me y).find j = none ∨
      (y, j) ∈ (if recreates (s.me y) i = true then s.recreated ++ [(y, i)] else s.recreated) := by
    intro j
    rcases hgs j with h | h | ⟨rfl, h⟩
    · exact Or.inl h
    · exact Or.inr (Or.inl h)
    · right; right; simp [h]
  -- every branch ends in a state whose receiving end is e' possibly with buffered/fbPending of stream i updated
  have key : ∀ (e'' : MEnd), (∀ j, Harmless e' e'' j) → (∀ j, (e'.find j).isSome → (e''.find j).isSome) →
      ∀ (s' : Sys), s'.ch = s.ch → s'.sent = s.sent → s'.ends = upd s.ends y e'' →
        s'.recreated = (if recreates (s.me y) i = true then s.recreated ++ [(y, i)] else s.recreated) →
        RecvFrame s s' y := by
    intro e'' hh hs s' h1 h2 h3 h4
    refine ⟨h1, h2, ?_, ?_, ?_, ?_, ?_⟩
    · intro x hx; simp only [Sys.me, h3, upd_other _ _ _ _ hx]
    · intro x j hx; rw [h4]; exact hrecO x j hx
    · intro p hp; rw [h4]; exact hrecM p hp
    · intro j hj; simp only [Sys.me, h3, upd_same]; exact hs j (hsome j hj)
    · intro j
      simp only [Sys.me, h3, upd_same, h4]
      rcases heff1 j with h | h | h
      · exact Or.inl (harmless_trans h (hh j))
      · exact Or.inr (Or.inl h)
      · exact Or.inr (Or.inr h)
  cases found with
  | false =>
    simp only [Bool.false_eq_true, if_false]
    exact ⟨key e' (fun j => harmless_refl _ _) (fun _ h => h) _ rfl rfl rfl rfl, rfl⟩
  | true =>
    simp only [if_true]
    simp only [Sys.setMe, Sys.me, upd_same]
    cases hfind : e'.find i with
    | none => exact ⟨key e' (fun j => harmless_refl _ _) (fun _ h => h) _ rfl rfl rfl rfl, rfl⟩
    | some st =>
      simp only
      split
      · exact ⟨key e' (fun j => harmless_refl _ _) (fun _ h => h) _ rfl rfl rfl rfl, rfl⟩
      · refine ⟨key (e'.upd i (fun y => { y with buffered := y.buffered ++ [m], fbPending := y.fbPending || v }))
          (fun j => harmless_upd _ _ _ _ (fun _ => rfl) (fun _ h => h) (fun _ h => h))
          (fun j h => ?_) _ rfl rfl ?_ rfl, rfl⟩
        · rw [find_upd_isSome e' i j (fun y => { y with buffered := y.buffered ++ [m], fbPending := y.fbPending || v }) (fun _ => rfl)]
          exact h
        · funext z
          simp only [upd]
          by_cases hz : z = y
          · simp [hz]
          · simp [hz]

end Mux

namespace Mux
open List

theorem RecvFrame.refl (s : Sys) (y : Side) : RecvFrame s s y :=
  ⟨rfl, rfl, fun _ _ => rfl, fun _ _ _ => Iff.rfl, fun _ h => h, fun _ h => h, fun j => Or.inl (harmless_refl _ _)⟩

theorem RecvFrame.trans {s1 s2 s3 : Sys} {y : Side} (h12 : RecvFrame s1 s2 y) (h23 : RecvFrame s2 s3 y) : RecvFrame s1 s3 y := by
  refine ⟨h23.ch.trans h12.ch, h23.sent.trans h12.sent, fun x hx => (h23.other x hx).trans (h12.other x hx),
          fun x j hx => (h23.recOther x j hx).trans (h12.recOther x j hx), fun p hp => h23.recMono p (h12.recMono p hp),
          fun j hj => h23.some_ j (h12.some_ j hj), ?_⟩
  intro j
  rcases h12.eff j with h | h | h
  · rcases h23.eff j with g | g | g
    · exact Or.inl (harmless_trans h g)
    · right; left
      cases hf : (s1.me y).find j with
      | none => rfl
      | some st =>
        have := h12.some_ j (by simp [hf])
        simp [g] at this
    · exact Or.inr (Or.inr g)
  · exact Or.inr (Or.inl h)
  · exact Or.inr (Or.inr (h23.recMono _ h))

def dataItems (y : Side) (q : List QEl) : List (Side × Nat × Nat) :=
  q.filterMap (fun el => if el.isClose then none else some (y, el.sid, el.msg))

theorem tagOf_dataItems (y : Side) (j : Nat) (q : List QEl) : tagOf y j (dataItems y q) = qdata j q := by
  induction q with
  | nil => rfl
  | cons el r ih =>
    simp only [dataItems, filterMap_cons, qdata, filter_cons] at ih ⊢
    by_cases hc : el.isClose = true
    · simp only [hc, if_true, Bool.not_true, Bool.and_false, Bool.false_eq_true, if_false]
      exact ih
    · have hc' : el.isClose = false := by simpa using hc
      simp only [hc', Bool.false_eq_true, if_false, Bool.not_false, Bool.and_true]
      by_cases hs : el.sid = j
      · simp only [tagOf, filterMap_cons, hs, and_self, if_true, beq_self_eq_true, map_cons]
        simp only [tagOf] at ih
        rw [ih]
      · have : (el.sid == j) = false := by simpa using hs
        simp only [tagOf, filterMap_cons, hs, and_false, if_false, this, Bool.false_eq_true]
        simp only [tagOf] at ih
        exact ih

theorem drain_frame : ∀ (q : List QEl) (s : Sys) (y : Side),
    RecvFrame s (drain q s y) y ∧ (drain q s y).arrived = s.arrived ++ dataItems y q := by
  intro q
  induction q with
  | nil => intro s y; exact ⟨RecvFrame.refl s y, by simp [drain, dataItems]⟩
  | cons el r ih =>
    intro s y
    simp only [drain]
    by_cases hc : el.isClose = true
    · simp only [hc, if_true]
      obtain ⟨f1, a1⟩ := closeNote_frame s y el.sid
      obtain ⟨f2, a2⟩ := ih (closeNote s y el.sid) y
      refine ⟨f1.trans f2, ?_⟩
      rw [a2, a1]; simp [dataItems, hc]
    · have hc' : el.isClose = false := by simpa using hc
      simp only [hc', Bool.false_eq_true, if_false]
      obtain ⟨f1, a1⟩ := offer_frame s y el.sid el.msg false
      obtain ⟨f2, a2⟩ := ih (offer s y el.sid el.msg) y
      refine ⟨f1.trans f2, ?_⟩
      rw [a2, a1]; simp [dataItems, hc']

end Mux

namespace Mux
open List

/-! ### the per-direction, per-stream invariant -/

structure Core (s : Sys) (x : Side) (j : Nat) : Prop where
  g1 : (s.ch x).flag = true → Ev.polling ∈ (s.ch x).k
  g2 : (s.ch x).q ≠ [] → (s.ch x).flag = true
  ej : (qFor j (s.ch x).q ≠ [] ∨ ∃ ev ∈ (s.ch x).k, evFor j ev = true) → ((s.me x).find j).isSome = true
  sj : (x, j) ∉ s.recreated → (∃ ev ∈ (s.ch x).k, evFor j ev = true) →
        ∀ st, (s.me x).find j = some st → st.inFb = true ∨ st.state ≠ .opened
  ij : (x, j) ∉ s.recreated → qFor j (s.ch x).q ≠ [] → ∀ ev ∈ beforePoll (s.ch x).k, evFor j ev = false

def Ord (s : Sys) (x : Side) (j : Nat) : Prop :=
  (x, j) ∉ s.recreated → tagOf x.peer j s.arrived ++ qdata j (s.ch x).q ++ kdata j (s.ch x).k = tagOf x j s.sent

structure Inv (s : Sys) (x : Side) (j : Nat) : Prop where
  core : Core s x j
  ord : Ord s x j

/-- the end `x` receives something (on the OTHER channel): its own outgoing direction keeps its invariant -/
theorem core_recv_self {s s' : Sys} {x : Side} {j : Nat} (h : Core s x j) (f : RecvFrame s s' x) : Core s' x j := by
  refine ⟨?_, ?_, ?_, ?_, ?_⟩
  · rw [f.ch]; exact h.g1
  · rw [f.ch]; exact h.g2
  · rw [f.ch]; intro hp; exact f.some_ j (h.ej hp)
  · rw [f.ch]
    intro hrec hev st' hst'
    have hrec0 : (x, j) ∉ s.recreated := fun hh => hrec (f.recMono _ hh)
    rcases f.eff j with hh | hh | hh
    · obtain ⟨st, hst, a, b⟩ := hh st' hst'
      rcases h.sj hrec0 hev st hst with c | c
      · exact Or.inl (a c)
      · exact Or.inr (b c)
    · have := h.ej (Or.inr hev); simp [hh] at this
    · exact absurd hh hrec
  · rw [f.ch]
    intro hrec; exact h.ij (fun hh => hrec (f.recMono _ hh))

theorem ord_recv_self {s s' : Sys} {x : Side} {j : Nat} (h : Ord s x j) (f : RecvFrame s s' x)
    (l : List (Side × Nat × Nat)) (ha : s'.arrived = s.arrived ++ l) (hl : ∀ t ∈ l, t.1 = x) : Ord s' x j := by
  intro hrec
  have hrec0 : (x, j) ∉ s.recreated := fun hh => hrec (f.recMono _ hh)
  have hz : tagOf x.peer j l = [] := by
    unfold tagOf
    rw [filterMap_eq_nil_iff]
    intro t ht
    have := hl t ht
    have hne : ¬ (t.1 = x.peer ∧ t.2.1 = j) := fun hh => peer_ne x (hh.1.symm.trans this)
    simp [hne]
  rw [f.ch, f.sent, ha, tagOf_append, hz, append_nil]
  exact h hrec0

/-- the peer `y = x.peer` handles what it popped from x's channel: nothing x-side changes -/
theorem core_recv_peer {s s' : Sys} {x y : Side} {j : Nat} (hy : x ≠ y) (h : Core s x j) (f : RecvFrame s s' y) : Core s' x j := by
  refine ⟨?_, ?_, ?_, ?_, ?_⟩
  · rw [f.ch]; exact h.g1
  · rw [f.ch]; exact h.g2
  · rw [f.ch, f.other x hy]; exact h.ej
  · rw [f.ch, f.other x hy]
    intro hrec; exact h.sj (fun hh => hrec ((f.recOther x j hy).mpr hh))
  · rw [f.ch]
    intro hrec; exact h.ij (fun hh => hrec ((f.recOther x j hy).mpr hh))

end Mux

namespace Mux
open List

theorem core_setCh_other {s : Sys} {x z : Side} {j : Nat} (c : Chan) (hz : x ≠ z) (h : Core s x j) : Core (s.setCh z c) x j := by
  have e : (s.setCh z c).ch x = s.ch x := setCh_ch_other s z x c hz
  exact ⟨by rw [e]; exact h.g1, by rw [e]; exact h.g2, by rw [e]; exact h.ej, by rw [e]; exact h.sj, by rw [e]; exact h.ij⟩

theorem ord_setCh_other {s : Sys} {x z : Side} {j : Nat} (c : Chan) (hz : x ≠ z) (h : Ord s x j) : Ord (s.setCh z c) x j := by
  have e : (s.setCh z c).ch x = s.ch x := setCh_ch_other s z x c hz
  intro hrec; unfold Ord at h; rw [e]; exact h hrec

theorem kdata_cons_polling (j : Nat) (r : List Ev) : kdata j (Ev.polling :: r) = kdata j r := by simp [kdata]
theorem kdata_cons_close (j i : Nat) (r : List Ev) : kdata j (Ev.close i :: r) = kdata j r := by simp [kdata]
theorem kdata_cons_fb (j i m : Nat) (r : List Ev) : kdata j (Ev.fb i m :: r) = if i = j then m :: kdata j r else kdata j r := by
  by_cases h : i = j <;> simp [kdata, h]

/-- popping a non-polling head event from x's connection keeps the core invariant -/
theorem core_pop_head {s : Sys} {x : Side} {j : Nat} (ev : Ev) (rest : List Ev) (hk : (s.ch x).k = ev :: rest)
    (hev : ev ≠ .polling) (h : Core s x j) : Core (s.setCh x { s.ch x with k := rest }) x j := by
  refine ⟨?_, ?_, ?_, ?_, ?_⟩ <;> simp only [setCh_ch_same, setCh_me, setCh_recreated]
  · intro hf
    have := h.g1 hf; rw [hk] at this
    rcases mem_cons.mp this with e | e
    · exact absurd e.symm hev
    · exact e
  · exact h.g2
  · rintro (hq | ⟨e, he, hh⟩)
    · exact h.ej (Or.inl hq)
    · exact h.ej (Or.inr ⟨e, by rw [hk]; exact mem_cons_of_mem _ he, hh⟩)
  · rintro hrec ⟨e, he, hh⟩
    exact h.sj hrec ⟨e, by rw [hk]; exact mem_cons_of_mem _ he, hh⟩
  · intro hrec hq e he
    have := h.ij hrec hq
    rw [hk] at this
    exact this e (beforePoll_tail_subset ev rest hev e he)

theorem deliver_inv (s : Sys) (y : Side) (x : Side) (j : Nat) (h : Inv s x j) : Inv (deliver s y).1 x j := by
  unfold deliver
  rcases eq_or_peer y x with hx | hx
  · -- x = y : the other direction's channel is consumed, x only receives
    subst hx
    have hne : x ≠ x.peer := fun e => peer_ne x e.symm
    cases hk : (s.ch x.peer).k with
    | nil => simp only [hk]; exact h
    | cons ev rest =>
      simp only [hk]
      cases ev with
      | polling =>
        simp only
        obtain ⟨f, a⟩ := drain_frame (s.ch x.peer).q (s.setCh x.peer { q := [], flag := false, k := rest }) x
        refine ⟨core_recv_self (core_setCh_other _ hne h.core) f, ?_⟩
        refine ord_recv_self (ord_setCh_other _ hne h.ord) f _ a ?_
        intro t ht
        simp only [dataItems, mem_filterMap] at ht
        obtain ⟨el, _, hel⟩ := ht
        split at hel
        · cases hel
        · cases hel; rfl
      | close i =>
        simp only
        obtain ⟨f, a⟩ := closeNote_frame (s.setCh x.peer { s.ch x.peer with k := rest }) x i
        refine ⟨core_recv_self (core_setCh_other _ hne h.core) f, ?_⟩
        exact ord_recv_self (ord_setCh_other _ hne h.ord) f [] (by simpa using a) (by simp)
      | fb i m =>
        simp only
        obtain ⟨f, a⟩ := offer_frame (s.setCh x.peer { s.ch x.peer with k := rest }) x i m true
        refine ⟨core_recv_self (core_setCh_other _ hne h.core) f, ?_⟩
        exact ord_recv_self (ord_setCh_other _ hne h.ord) f [(x, i, m)] a (by simp)
  · -- x = y.peer : x's own channel is consumed by its peer y
    have hxy : x ≠ y := by rw [hx]; exact peer_ne y
    have hpp : x.peer = y := by rw [hx]; exact peer_peer y
    rw [← hx]
    cases hk : (s.ch x).k with
    | nil => simp only [hk]; exact h
    | cons ev rest =>
      simp only [hk]
      cases ev with
      | polling =>
        simp only
        obtain ⟨f, a⟩ := drain_frame (s.ch x).q (s.setCh x { q := [], flag := false, k := rest }) y
        have hc1 : Core (s.setCh x { q := [], flag := false, k := rest }) x j := by
          refine ⟨?_, ?_, ?_, ?_, ?_⟩ <;> simp only [setCh_ch_same, setCh_me, setCh_recreated]
          · intro hf; cases hf
          · intro hq; exact absurd rfl hq
          · rintro (hq | ⟨e, he, hh⟩)
            · simp [qFor] at hq
            · exact h.core.ej (Or.inr ⟨e, by rw [hk]; exact mem_cons_of_mem _ he, hh⟩)
          · rintro hrec ⟨e, he, hh⟩
            exact h.core.sj hrec ⟨e, by rw [hk]; exact mem_cons_of_mem _ he, hh⟩
          · intro _ hq; simp [qFor] at hq
        refine ⟨core_recv_peer hxy hc1 f, ?_⟩
        intro hrec
        have hrec0 : (x, j) ∉ s.recreated := fun hh => hrec ((f.recOther x j hxy).mpr hh)
        have := h.ord hrec0
        rw [hk, kdata_cons_polling] at this
        rw [f.ch, f.sent, a, hpp, tagOf_append, tagOf_dataItems]
        simp only [setCh_ch_same, setCh_arrived, setCh_sent, qdata, filter_nil, map_nil, append_nil]
        rw [hpp] at this
        simp only [qdata] at this
        rw [← this]
      | close i =>
        simp only
        obtain ⟨f, a⟩ := closeNote_frame (s.setCh x { s.ch x with k := rest }) y i
        refine ⟨core_recv_peer hxy (core_pop_head _ rest hk (by simp) h.core) f, ?_⟩
        intro hrec
        have hrec0 : (x, j) ∉ s.recreated := fun hh => hrec ((f.recOther x j hxy).mpr hh)
        have := h.ord hrec0
        rw [hk, kdata_cons_close] at this
        rw [f.ch, f.sent, a]
        simpa using this
      | fb i m =>
        simp only
        obtain ⟨f, a⟩ := offer_frame (s.setCh x { s.ch x with k := rest }) y i m true
        refine ⟨core_recv_peer hxy (core_pop_head _ rest hk (by simp) h.core) f, ?_⟩
        intro hrec
        have hrec0 : (x, j) ∉ s.recreated := fun hh => hrec ((f.recOther x j hxy).mpr hh)
        have := h.ord hrec0
        rw [hk, kdata_cons_fb] at this
        rw [f.ch, f.sent, a, hpp, tagOf_append]
        simp only [setCh_ch_same, setCh_arrived, setCh_sent]
        rw [hpp] at this
        by_cases hij : i = j
        · subst hij
          simp only [if_true] at this
          -- nothing of stream i can be in the queue: the fall-back event is ahead of every polling event
          have hq : qFor i (s.ch x).q = [] := by
            by_cases hne : qFor i (s.ch x).q = []
            · exact hne
            · have := h.core.ij hrec0 hne (Ev.fb i m) (by rw [hk]; exact head_mem_beforePoll _ rest (by simp))
              simp [evFor] at this
          have hq2 := qdata_nil_of_qFor_nil i _ hq
          rw [hq2] at this ⊢
          simp only [tagOf, filterMap_cons, filterMap_nil, and_self, if_true, append_nil] at this ⊢
          rw [← this]; simp
        · simp only [hij, if_false] at this
          have : tagOf y j [(y, i, m)] = [] := by simp [tagOf, hij]
          rw [this, append_nil]
          assumption

end Mux

namespace Mux
open List

theorem inv_of_same {s s' : Sys} {x : Side} {j : Nat} (h : Inv s x j)
    (h1 : s'.ch x = s.ch x) (h2 : s'.me x = s.me x) (h3 : s'.recreated = s.recreated)
    (h4 : s'.arrived = s.arrived) (h5 : tagOf x j s'.sent = tagOf x j s.sent) : Inv s' x j := by
  refine ⟨⟨?_, ?_, ?_, ?_, ?_⟩, ?_⟩
  · rw [h1]; exact h.core.g1
  · rw [h1]; exact h.core.g2
  · rw [h1, h2]; exact h.core.ej
  · rw [h1, h2, h3]; exact h.core.sj
  · rw [h1, h3]; exact h.core.ij
  · unfold Ord; rw [h1, h3, h4, h5]; exact h.ord

theorem tagOf_snoc_other (x z : Side) (j i m : Nat) (l : List (Side × Nat × Nat)) (hz : z ≠ x ∨ i ≠ j) :
    tagOf x j (l ++ [(z, i, m)]) = tagOf x j l := by
  rw [tagOf_append]
  have : tagOf x j [(z, i, m)] = [] := by
    simp only [tagOf, filterMap_cons, filterMap_nil]
    rcases hz with h | h
    · simp [h]
    · simp [h]
  rw [this, append_nil]

theorem tagOf_snoc_same (x : Side) (j m : Nat) (l : List (Side × Nat × Nat)) :
    tagOf x j (l ++ [(x, j, m)]) = tagOf x j l ++ [m] := by
  rw [tagOf_append]; simp [tagOf]

/-- no event of stream `j` on x's connection while its (never re-created) sender object is open and not in fall-back -/
theorem no_events_of_open {s : Sys} {x : Side} {j : Nat} (h : Core s x j) (hrec : (x, j) ∉ s.recreated)
    (st : MStream) (hst : (s.me x).find j = some st) (ho : st.state = .opened) (hf : st.inFb = false) :
    ∀ ev ∈ (s.ch x).k, evFor j ev = false := by
  intro ev hev
  cases hb : evFor j ev with
  | false => rfl
  | true =>
    rcases h.sj hrec ⟨ev, hev, hb⟩ st hst with c | c
    · rw [hf] at c; cases c
    · exact absurd ho c

theorem mem_wake_k (c : Chan) (ev : Ev) (h : ev ∈ c.wake.k) : ev ∈ c.k ∨ ev = .polling := by
  unfold Chan.wake at h
  split at h
  · exact Or.inl h
  · simp only [mem_append, mem_singleton] at h; exact h

theorem wake_q (c : Chan) : c.wake.q = c.q := by unfold Chan.wake; split <;> rfl
theorem wake_flag (c : Chan) : c.wake.flag = true := by unfold Chan.wake; split <;> simp_all
theorem wake_polling (c : Chan) (h : c.flag = true → Ev.polling ∈ c.k) : Ev.polling ∈ c.wake.k := by
  unfold Chan.wake
  split
  · rename_i hf; exact h hf
  · simp
theorem wake_kdata (j : Nat) (c : Chan) : kdata j c.wake.k = kdata j c.k := by
  unfold Chan.wake; split
  · rfl
  · simp [kdata_append, kdata]

/-- what precedes the first polling event after a wake-up -/
theorem wake_beforePoll (c : Chan) (h1 : c.flag = true → Ev.polling ∈ c.k) (ev : Ev) (hev : ev ∈ beforePoll c.wake.k) :
    ev ∈ beforePoll c.k ∨ (c.flag = false ∧ ev ∈ c.k) := by
  unfold Chan.wake at hev
  split at hev
  · exact Or.inl hev
  · rename_i hf
    right
    refine ⟨by simpa using hf, ?_⟩
    have hall : ((c.k ++ [Ev.polling]).takeWhile (fun ev => ev != .polling)).all (fun ev => ev != .polling) = true := all_takeWhile
    have hp : (ev != Ev.polling) = true := (all_eq_true.mp hall) ev hev
    have hmem : ev ∈ c.k ++ [Ev.polling] := (takeWhile_subset _) hev
    rcases mem_append.mp hmem with hh | hh
    · exact hh
    · simp at hh; subst hh; simp at hp

end Mux

namespace Mux
open List

theorem qdata_single (j i m : Nat) : qdata j [{ sid := i, msg := m, isClose := false }] = if i = j then [m] else [] := by
  by_cases h : i = j <;> simp [qdata, h]
theorem qdata_single_close (j i m : Nat) : qdata j [{ sid := i, msg := m, isClose := true }] = [] := by simp [qdata]
theorem qFor_single (j i m : Nat) (c : Bool) : qFor j [{ sid := i, msg := m, isClose := c }] = if i = j then [{ sid := i, msg := m, isClose := c }] else [] := by
  by_cases h : i = j <;> simp [qFor, h]

theorem beforePoll_subset (k : List Ev) : ∀ ev ∈ beforePoll k, ev ∈ k := fun ev h => (takeWhile_subset _) h

/-- the sender-side effect of queueing one element for stream `i` and waking the peer -/
theorem core_enqueue {s : Sys} {x : Side} {j i m : Nat} {cl : Bool} (h : Core s x j) (st : MStream)
    (hst : (s.me x).find i = some st)
    (hno : (x, j) ∉ s.recreated → i = j → ∀ ev ∈ (s.ch x).k, evFor j ev = false)
    (s' : Sys) (c' : Chan) (hck : c'.k = (s.ch x).k) (hcf : c'.flag = (s.ch x).flag)
    (hcq : c'.q = (s.ch x).q ++ [{ sid := i, msg := m, isClose := cl }])
    (hch : s'.ch x = c'.wake)
    (hme : ∀ j', ((s'.me x).find j').isSome = ((s.me x).find j').isSome)
    (hsj : ∀ st', (s'.me x).find j = some st' → ∃ st0, (s.me x).find j = some st0 ∧ (st0.inFb = true → st'.inFb = true) ∧ (st0.state ≠ .opened → st'.state ≠ .opened))
    (hrec : s'.recreated = s.recreated) : Core s' x j := by
  have hg1' : c'.flag = true → Ev.polling ∈ c'.k := by rw [hck, hcf]; exact h.g1
  have hk : ∀ ev ∈ (s'.ch x).k, ev ∈ (s.ch x).k ∨ ev = .polling := by
    intro ev hev; rw [hch] at hev
    have := mem_wake_k c' ev hev
    rw [hck] at this; exact this
  have hq : (s'.ch x).q = (s.ch x).q ++ [{ sid := i, msg := m, isClose := cl }] := by rw [hch, wake_q, hcq]
  refine ⟨?_, ?_, ?_, ?_, ?_⟩
  · intro _; rw [hch]; exact wake_polling _ hg1'
  · intro _; rw [hch]; exact wake_flag _
  · rintro (hqq | ⟨ev, hev, hh⟩)
    · rw [hme]
      rw [hq, qFor_append, qFor_single] at hqq
      by_cases hij : i = j
      · subst hij; simp [hst]
      · simp only [hij, if_false, append_nil] at hqq
        exact h.ej (Or.inl hqq)
    · rw [hme]
      rcases hk ev hev with h1 | h1
      · exact h.ej (Or.inr ⟨ev, h1, hh⟩)
      · subst h1; simp [evFor] at hh
  · rw [hrec]
    rintro hr ⟨ev, hev, hh⟩ st' hst'
    obtain ⟨st0, h0, a, b⟩ := hsj st' hst'
    rcases hk ev hev with h1 | h1
    · rcases h.sj hr ⟨ev, h1, hh⟩ st0 h0 with c | c
      · exact Or.inl (a c)
      · exact Or.inr (b c)
    · subst h1; simp [evFor] at hh
  · rw [hrec]
    intro hr hqq ev hev
    rw [hch] at hev
    rw [hq, qFor_append, qFor_single] at hqq
    have hbp := wake_beforePoll c' hg1' ev hev
    rw [hck, hcf] at hbp
    rcases hbp with h1 | ⟨hf, h1⟩
    · by_cases hij : i = j
      · exact hno hr hij ev (beforePoll_subset _ ev h1)
      · simp only [hij, if_false, append_nil] at hqq
        exact h.ij hr hqq ev h1
    · by_cases hij : i = j
      · exact hno hr hij ev h1
      · simp only [hij, if_false, append_nil] at hqq
        have hqne : (s.ch x).q ≠ [] := by
          intro e; rw [e] at hqq; simp [qFor] at hqq
        have := h.g2 hqne
        rw [hf] at this; cases this

/-- the sender-side effect of writing one event about stream `i` on the connection -/
theorem core_append_event {s : Sys} {x : Side} {j i : Nat} (h : Core s x j) (ev0 : Ev)
    (hfor : ∀ j', evFor j' ev0 = true → j' = i)
    (st : MStream) (hst : (s.me x).find i = some st)
    (s' : Sys) (hq : (s'.ch x).q = (s.ch x).q) (hf : (s'.ch x).flag = (s.ch x).flag) (hk : (s'.ch x).k = (s.ch x).k ++ [ev0])
    (hme : ∀ j', ((s'.me x).find j').isSome = ((s.me x).find j').isSome)
    (hA : j = i → ∀ st', (s'.me x).find j = some st' → st'.inFb = true ∨ st'.state ≠ .opened)
    (hB : j ≠ i → ∀ st', (s'.me x).find j = some st' → ∃ st0, (s.me x).find j = some st0 ∧
        (st0.inFb = true → st'.inFb = true) ∧ (st0.state ≠ .opened → st'.state ≠ .opened))
    (hrec : s'.recreated = s.recreated) : Core s' x j := by
  refine ⟨?_, ?_, ?_, ?_, ?_⟩
  · rw [hf, hk]; intro hh; exact mem_append_left _ (h.g1 hh)
  · rw [hq, hf]; exact h.g2
  · rw [hq, hk]
    rintro (hqq | ⟨ev, hev, hh⟩)
    · rw [hme]; exact h.ej (Or.inl hqq)
    · rw [hme]
      rcases mem_append.mp hev with h1 | h1
      · exact h.ej (Or.inr ⟨ev, h1, hh⟩)
      · simp only [mem_singleton] at h1; subst h1
        have := hfor j hh; subst this; simp [hst]
  · rw [hrec, hk]
    rintro hr ⟨ev, hev, hh⟩ st' hst'
    by_cases hji : j = i
    · exact hA hji st' hst'
    · obtain ⟨st0, h0, a, b⟩ := hB hji st' hst'
      rcases mem_append.mp hev with h1 | h1
      · rcases h.sj hr ⟨ev, h1, hh⟩ st0 h0 with c | c
        · exact Or.inl (a c)
        · exact Or.inr (b c)
      · simp only [mem_singleton] at h1; subst h1
        exact absurd (hfor j hh) hji
  · rw [hrec, hq, hk]
    intro hr hqq
    have hqne : (s.ch x).q ≠ [] := by intro e; rw [e] at hqq; simp [qFor] at hqq
    rw [beforePoll_append_of_mem _ _ (h.g1 (h.g2 hqne))]
    exact h.ij hr hqq

end Mux

namespace Mux
open List

theorem find_upd_stream (e : MEnd) (i j : Nat) (f : MStream → MStream) (hf : ∀ y, (f y).id = y.id)
    (st' : MStream) (h : (e.upd i f).find j = some st') :
    (j = i ∧ ∃ st, e.find j = some st ∧ st' = f st) ∨ (j ≠ i ∧ e.find j = some st') := by
  rw [find_upd e i j f hf] at h
  by_cases hji : j = i
  · left
    simp only [hji, if_true] at h
    cases hfd : e.find i with
    | none => simp [hfd] at h
    | some st => simp only [hfd, Option.map_some, Option.some.injEq] at h; exact ⟨hji, st, by rw [hji]; exact hfd, h.symm⟩
  · right; simp only [hji, if_false] at h; exact ⟨hji, h⟩

theorem flush_inv (s : Sys) (z : Side) (i : Nat) (heap : Bool) (x : Side) (j : Nat) (h : Inv s x j) :
    Inv (flush s z i heap).1 x j := by
  unfold flush
  cases hfind : (s.me z).find i with
  | none => exact h
  | some st =>
    simp only
    by_cases hop : st.state ≠ .opened
    · rw [if_pos hop]; exact inv_of_same h rfl rfl rfl rfl rfl
    · rw [if_neg hop]
      have hopen : st.state = .opened := by simpa using hop
      by_cases hfb : st.inFb = true ∨ heap = true
      · rw [if_pos hfb]
        simp only
        by_cases hz : z = x
        · subst hz
          have hidf : ∀ y : MStream, ({ y with inFb := true } : MStream).id = y.id := fun _ => rfl
          refine ⟨?_, ?_⟩
          · refine core_append_event (i := i) h.core (.fb i s.fresh) ?_ st hfind _
              (by simp [Sys.setCh, Sys.setMe]) (by simp [Sys.setCh, Sys.setMe]) (by simp [Sys.setCh, Sys.setMe]) ?_ ?_ ?_ rfl
            · intro j' hj'; simp only [evFor, beq_iff_eq] at hj'; exact hj'.symm
            · intro j'
              simp only [Sys.setCh, Sys.setMe, Sys.me, upd_same]
              exact find_upd_isSome _ _ _ _ hidf
            · intro hji st' hst'
              simp only [Sys.setCh, Sys.setMe, Sys.me, upd_same] at hst'
              rcases find_upd_stream _ _ _ _ hidf st' hst' with ⟨_, st0, _, e⟩ | ⟨hne, _⟩
              · subst e; exact Or.inl rfl
              · exact absurd hji hne
            · intro hji st' hst'
              simp only [Sys.setCh, Sys.setMe, Sys.me, upd_same] at hst'
              rcases find_upd_stream _ _ _ _ hidf st' hst' with ⟨he, _⟩ | ⟨_, e⟩
              · exact absurd he hji
              · exact ⟨st', e, fun a => a, fun a => a⟩
          · intro hr
            have := h.ord hr
            simp only [Sys.setCh, Sys.setMe, upd_same] at hr ⊢
            by_cases hij : i = j
            · subst hij
              rw [kdata_append, tagOf_snoc_same, ← this]
              simp [kdata, append_assoc]
            · rw [kdata_append, tagOf_snoc_other _ _ _ _ _ _ (Or.inr hij), ← this]
              have : kdata j [Ev.fb i s.fresh] = [] := by simp [kdata, hij]
              rw [this, append_nil]
        · have hxz : x ≠ z := fun e => hz e.symm
          refine inv_of_same h ?_ ?_ rfl rfl ?_
          · simp [Sys.setCh, Sys.setMe, upd_other _ _ _ _ hxz]
          · simp [Sys.setCh, Sys.setMe, Sys.me, upd_other _ _ _ _ hxz]
          · exact tagOf_snoc_other _ _ _ _ _ _ (Or.inl hz)
      · rw [if_neg hfb]
        have hnofb : st.inFb = false := by
          cases hb : st.inFb with
          | false => rfl
          | true => exact absurd (Or.inl hb) hfb
        by_cases hfull : (s.ch z).q.length ≥ s.qcap
        · rw [if_pos hfull]; exact inv_of_same h rfl rfl rfl rfl rfl
        · rw [if_neg hfull]
          by_cases hz : z = x
          · subst hz
            refine ⟨?_, ?_⟩
            · refine core_enqueue (i := i) (m := s.fresh) (cl := false) h.core st hfind ?_ _
                ({ s.ch z with q := (s.ch z).q ++ [{ sid := i, msg := s.fresh, isClose := false }] }) rfl rfl rfl
                (by simp [Sys.setCh]) (fun _ => rfl) ?_ rfl
              · intro hr hij; subst hij
                exact no_events_of_open h.core hr st hfind hopen hnofb
              · intro st' hst'; exact ⟨st', hst', fun a => a, fun a => a⟩
            · intro hr
              have := h.ord hr
              simp only [Sys.setCh, upd_same] at hr ⊢
              rw [wake_q, wake_kdata, qdata_append, qdata_single]
              by_cases hij : i = j
              · subst hij
                have hk0 := kdata_nil_of_no_ev i _ (no_events_of_open h.core hr st hfind hopen hnofb)
                rw [hk0] at this ⊢
                simp only [if_true, append_nil] at this ⊢
                rw [tagOf_snoc_same, ← this, append_assoc]
              · simp only [hij, if_false, append_nil]
                rw [tagOf_snoc_other _ _ _ _ _ _ (Or.inr hij)]; exact this
          · have hxz : x ≠ z := fun e => hz e.symm
            refine inv_of_same h ?_ rfl rfl rfl ?_
            · simp [Sys.setCh, upd_other _ _ _ _ hxz]
            · exact tagOf_snoc_other _ _ _ _ _ _ (Or.inl hz)

end Mux

namespace Mux
open List

/-- the sender end changes some of its stream objects in a harmless way; its channel is untouched -/
theorem core_me_change {s s' : Sys} {x : Side} {j : Nat} (h : Core s x j) (hch : s'.ch x = s.ch x)
    (hrec : s'.recreated = s.recreated)
    (hsome : ((s.me x).find j).isSome = true → ((s'.me x).find j).isSome = true)
    (hh : Harmless (s.me x) (s'.me x) j) : Core s' x j := by
  refine ⟨by rw [hch]; exact h.g1, by rw [hch]; exact h.g2, ?_, ?_, by rw [hch, hrec]; exact h.ij⟩
  · rw [hch]; intro hp; exact hsome (h.ej hp)
  · rw [hch, hrec]
    intro hr hev st' hst'
    obtain ⟨st0, h0, a, b⟩ := hh st' hst'
    rcases h.sj hr hev st0 h0 with c | c
    · exact Or.inl (a c)
    · exact Or.inr (b c)

theorem closeStream_inv (s : Sys) (z : Side) (i : Nat) (x : Side) (j : Nat) (h : Inv s x j) :
    Inv (closeStream s z i).1 x j := by
  unfold closeStream
  cases hfind : (s.me z).find i with
  | none => exact h
  | some st =>
    simp only
    by_cases hcl : st.state = .closed
    · rw [if_pos hcl]; exact h
    · rw [if_neg hcl]
      have hidf : ∀ y : MStream, ({ y with state := St.closed, buffered := [], fbPending := false } : MStream).id = y.id := fun _ => rfl
      by_cases hz : z = x
      · subst hz
        -- facts about the updated end, shared by the three branches
        have hsome' : ∀ j', (MEnd.find { (s.me z).upd i (fun y => { y with state := St.closed, buffered := [], fbPending := false }) with
              table := ((s.me z).upd i (fun y => { y with state := St.closed, buffered := [], fbPending := false })).table.filter (· ≠ i) } j').isSome
              = ((s.me z).find j').isSome := by
          intro j'; exact find_upd_isSome _ _ _ _ hidf
        have hstream : ∀ st', MEnd.find { (s.me z).upd i (fun y => { y with state := St.closed, buffered := [], fbPending := false }) with
              table := ((s.me z).upd i (fun y => { y with state := St.closed, buffered := [], fbPending := false })).table.filter (· ≠ i) } j = some st' →
              (j = i ∧ st'.state = .closed ∧ st'.inFb = st.inFb) ∨ (j ≠ i ∧ (s.me z).find j = some st') := by
          intro st' hst'
          have hst'' : ((s.me z).upd i (fun y => { y with state := St.closed, buffered := [], fbPending := false })).find j = some st' := hst'
          rcases find_upd_stream _ _ _ _ hidf st' hst'' with ⟨he, st0, h0, e⟩ | ⟨hne, e⟩
          · left; subst e; subst he
            rw [hfind] at h0; cases h0
            exact ⟨rfl, rfl, rfl⟩
          · exact Or.inr ⟨hne, e⟩
        have hharm : Harmless (s.me z) { (s.me z).upd i (fun y => { y with state := St.closed, buffered := [], fbPending := false }) with
              table := ((s.me z).upd i (fun y => { y with state := St.closed, buffered := [], fbPending := false })).table.filter (· ≠ i) } j := by
          intro st' hst'
          rcases hstream st' hst' with ⟨he, h1, h2⟩ | ⟨_, e⟩
          · subst he
            exact ⟨st, hfind, fun a => by rw [h2]; exact a, fun _ => by rw [h1]; simp⟩
          · exact ⟨st', e, fun a => a, fun a => a⟩
        by_cases hop : st.state = .opened
        · rw [if_pos hop]
          split
          · -- close notification on the connection
            rename_i hcond
            have hvia : st.inFb = true ∨ (s.ch z).q.length ≥ s.qcap := hcond
            refine ⟨?_, ?_⟩
            · refine core_append_event (i := i) h.core (.close i) ?_ st hfind _ (by simp [Sys.setCh, Sys.setMe]) (by simp [Sys.setCh, Sys.setMe]) (by simp [Sys.setCh, Sys.setMe]) ?_ ?_ ?_ rfl
              · intro j' hj'; simp only [evFor, beq_iff_eq] at hj'; exact hj'.symm
              · intro j'; simp only [Sys.setCh, Sys.setMe, Sys.me, upd_same]; exact hsome' j'
              · intro hji st' hst'
                simp only [Sys.setCh, Sys.setMe, Sys.me, upd_same] at hst'
                rcases hstream st' hst' with ⟨_, h1, _⟩ | ⟨hne, _⟩
                · right; rw [h1]; simp
                · exact absurd hji hne
              · intro hji st' hst'
                simp only [Sys.setCh, Sys.setMe, Sys.me, upd_same] at hst'
                rcases hstream st' hst' with ⟨he, _, _⟩ | ⟨_, e⟩
                · exact absurd he hji
                · exact ⟨st', e, fun a => a, fun a => a⟩
            · intro hr
              have := h.ord hr
              simp only [Sys.setCh, Sys.setMe, upd_same] at hr ⊢
              rw [kdata_append]
              have : kdata j [Ev.close i] = [] := by simp [kdata]
              rw [this, append_nil]; assumption
          · rename_i hcond
            have hvia : ¬ (st.inFb = true ∨ (s.ch z).q.length ≥ s.qcap) := hcond
            have hnofb : st.inFb = false := by
              cases hb : st.inFb with
              | false => rfl
              | true => exact absurd (Or.inl hb) hvia
            refine ⟨?_, ?_⟩
            · refine core_enqueue (i := i) (m := 0) (cl := true) h.core st hfind ?_ _
                ({ s.ch z with q := (s.ch z).q ++ [{ sid := i, msg := 0, isClose := true }] }) rfl rfl rfl
                (by simp [Sys.setCh, Sys.setMe]) ?_ ?_ rfl
              · intro hr hij; subst hij
                exact no_events_of_open h.core hr st hfind hop hnofb
              · intro j'; simp only [Sys.setCh, Sys.setMe, Sys.me, upd_same]; exact hsome' j'
              · intro st' hst'
                simp only [Sys.setCh, Sys.setMe, Sys.me, upd_same] at hst'
                exact hharm st' hst'
            · intro hr
              have := h.ord hr
              simp only [Sys.setCh, Sys.setMe, upd_same] at hr ⊢
              rw [wake_q, wake_kdata, qdata_append, qdata_single_close, append_nil]; assumption
        · rw [if_neg hop]
          refine ⟨?_, ?_⟩
          · refine core_me_change h.core rfl rfl ?_ ?_
            · intro hs; simp only [Sys.setMe, Sys.me, upd_same]; exact (hsome' j).trans hs
            · simp only [Sys.setMe, Sys.me, upd_same]; exact hharm
          · intro hr; exact h.ord hr
      · have hxz : x ≠ z := fun e => hz e.symm
        split
        · split
          · refine inv_of_same h ?_ ?_ rfl rfl rfl
            · simp [Sys.setCh, Sys.setMe, upd_other _ _ _ _ hxz]
            · simp [Sys.setCh, Sys.setMe, Sys.me, upd_other _ _ _ _ hxz]
          · refine inv_of_same h ?_ ?_ rfl rfl rfl
            · simp [Sys.setCh, Sys.setMe, upd_other _ _ _ _ hxz]
            · simp [Sys.setCh, Sys.setMe, Sys.me, upd_other _ _ _ _ hxz]
        · refine inv_of_same h rfl ?_ rfl rfl rfl
          simp [Sys.setMe, Sys.me, upd_other _ _ _ _ hxz]

end Mux

namespace Mux
open List

theorem find_append_new (e : MEnd) (id j : Nat) :
    MEnd.find { e with streams := e.streams ++ [{ id }] } j = (e.find j).or (if id = j then some { id } else none) := by
  simp only [MEnd.find, find?_append, find?_cons, find?_nil]
  congr 1
  by_cases h : id = j <;> simp [h]

def openedEnd (e : MEnd) : MEnd :=
  { e with nextId := e.nextId + 1, streams := e.streams ++ [{ id := e.nextId + 1 }], table := e.table ++ [e.nextId + 1] }

theorem openStream_eq (s : Sys) (z : Side) :
    (openStream s z).1 = if ((s.me z).find ((s.me z).nextId + 1)).isSome = true
      then { s with ends := upd s.ends z { (s.me z) with nextId := (s.me z).nextId + 1 } }
      else s.setMe z (openedEnd (s.me z)) := by
  unfold openStream openedEnd
  simp only
  split <;> rfl

theorem openStream_inv (s : Sys) (z : Side) (x : Side) (j : Nat) (h : Inv s x j) : Inv (openStream s z).1 x j := by
  rw [openStream_eq]
  by_cases hz : z = x
  · subst hz
    split
    · -- id in use: only nextId moves
      refine ⟨core_me_change h.core rfl rfl ?_ ?_, fun hr => h.ord hr⟩
      · intro hs; simpa [Sys.me, MEnd.find] using hs
      · intro st' hst'; exact ⟨st', by simpa [Sys.me, MEnd.find] using hst', fun a => a, fun a => a⟩
    · rename_i hnew
      have hfind : ∀ j', ((s.setMe z (openedEnd (s.me z))).me z).find j' =
            ((s.me z).find j').or (if (s.me z).nextId + 1 = j' then some { id := (s.me z).nextId + 1 } else none) := by
        intro j'; rw [setMe_me_same]; exact find_append_new _ _ _
      refine ⟨⟨h.core.g1, h.core.g2, ?_, ?_, h.core.ij⟩, fun hr => h.ord hr⟩
      · intro hp
        have := h.core.ej hp
        rw [hfind]
        cases hf : (s.me z).find j with
        | none => simp [hf] at this
        | some v => simp
      · intro hr hev st' hst'
        have hs := h.core.ej (Or.inr hev)
        rw [hfind] at hst'
        cases hf : (s.me z).find j with
        | none => simp [hf] at hs
        | some v =>
          rw [hf] at hst'
          have : st' = v := by simpa [Option.or] using hst'.symm
          subst this
          exact h.core.sj hr hev st' hf
  · have hxz : x ≠ z := fun e => hz e.symm
    split
    · exact inv_of_same h rfl (by simp [Sys.me, upd_other _ _ _ _ hxz]) rfl rfl rfl
    · exact inv_of_same h rfl (setMe_me_other _ _ _ _ hxz) rfl rfl rfl

theorem moved_inv (s : Sys) (z : Side) (i : Nat) (x : Side) (j : Nat) (h : Inv s x j) : Inv (moved s z i) x j := by
  unfold moved
  by_cases hz : z = x
  · subst hz
    have hidf : ∀ y : MStream, ({ y with inFb := y.inFb || y.fbPending, fbPending := false } : MStream).id = y.id := fun _ => rfl
    refine ⟨core_me_change h.core rfl rfl ?_ ?_, fun hr => h.ord hr⟩
    · intro hs; rw [setMe_me_same, find_upd_isSome _ _ _ _ hidf]; exact hs
    · rw [setMe_me_same]
      exact harmless_upd _ _ _ _ hidf (fun y hy => by simp [hy]) (fun _ hy => hy)
  · have hxz : x ≠ z := fun e => hz e.symm
    exact inv_of_same h rfl (setMe_me_other _ _ _ _ hxz) rfl rfl rfl

theorem consume_inv (s : Sys) (z : Side) (i : Nat) (x : Side) (j : Nat) (h : Inv s x j) : Inv (consume s z i) x j := by
  unfold consume
  cases hfind : (s.me z).find i with
  | none => exact h
  | some st =>
    simp only
    by_cases hz : z = x
    · subst hz
      have hidf : ∀ y : MStream, ({ y with buffered := [] } : MStream).id = y.id := fun _ => rfl
      refine ⟨core_me_change h.core rfl rfl ?_ ?_, fun hr => h.ord hr⟩
      · intro hs; simp only [Sys.setMe, Sys.me, upd_same]; rw [find_upd_isSome _ _ _ _ hidf]; exact hs
      · simp only [Sys.setMe, Sys.me, upd_same]
        exact harmless_upd _ _ _ _ hidf (fun _ hy => hy) (fun _ hy => hy)
    · have hxz : x ≠ z := fun e => hz e.symm
      exact inv_of_same h rfl (by simp [Sys.setMe, Sys.me, upd_other _ _ _ _ hxz]) rfl rfl rfl

theorem inv_init (qcap : Nat) (x : Side) (j : Nat) : Inv ({ qcap := qcap } : Sys) x j := by
  refine ⟨⟨?_, ?_, ?_, ?_, ?_⟩, ?_⟩
  · intro h; cases h
  · intro h; exact absurd rfl h
  · rintro (h | ⟨ev, hev, _⟩)
    · simp [qFor] at h
    · cases hev
  · rintro _ ⟨ev, hev, _⟩; cases hev
  · intro _ h; simp [qFor] at h
  · intro _; simp [tagOf, qdata, kdata]

theorem step_inv (s : Sys) (op : Op) (x : Side) (j : Nat) (h : Inv s x j) : Inv (step s op) x j := by
  cases op with
  | open_ z => exact openStream_inv s z x j h
  | flush z i hp => exact flush_inv s z i hp x j h
  | close z i => exact closeStream_inv s z i x j h
  | deliver z => exact deliver_inv s z x j h
  | consume z i => exact consume_inv s z i x j h
  | moved z i => exact moved_inv s z i x j h

theorem run_inv (s : Sys) (ops : List Op) (x : Side) (j : Nat) (h : Inv s x j) : Inv (run s ops) x j := by
  induction ops generalizing s with
  | nil => exact h
  | cons op r ih => exact ih _ (step_inv s op x j h)

end Mux
