import ShmVerif.Model.Lifecycle
import ShmVerif.Proof.Callback
/-! Invariant of the session-lifecycle model: the reference counts of the buffer-manager table are exactly the sessions
    that hold a reference; a session is cleaned up at most once; a cleaned session holds nothing. -/
namespace Lifecycle
open List

def holds (p : Nat) (x : Sess) : Bool := x.holdsRef && x.path == p

structure SInv (x : Sess) : Prop where
  postedSd : x.posted = true → x.shutdown = true ∧ x.cleaned = false
  cleanedSd : x.cleaned = true → x.shutdown = true ∧ x.streams = 0 ∧ x.connOpen = false ∧ x.holdsRef = false ∧ x.queueMapped = false
  live : x.cleaned = false → x.holdsRef = true ∧ x.queueMapped = true ∧ x.connOpen = true
  notif : x.notified = (if x.shutdown then 1 else 0)
  sdDone : x.shutdown = true → x.posted = true ∨ x.cleaned = true

structure Inv (s : Sys) : Prop where
  refs : ∀ p, s.refs p = s.sess.countP (holds p)
  each : ∀ x ∈ s.sess, SInv x

theorem inv_init : Inv {} := ⟨by intro p; simp, by intro x hx; simp at hx⟩

theorem sinv_new (p : Nat) : SInv { path := p } := by
  constructor <;> simp

theorem inv_newSess {s : Sys} (h : Inv s) (p : Nat) : Inv (newSess s p) := by
  obtain ⟨refs, each⟩ := h
  unfold newSess Sys.setRef
  constructor
  · intro q
    simp only [List.countP_append, List.countP_cons, List.countP_nil]
    by_cases hq : q = p
    · subst hq; simp [holds, refs]
    · have : (p == q) = false := by simp; omega
      simp [hq, holds, refs, this]
  · intro x hx
    rcases List.mem_append.mp hx with h1 | h1
    · exact each x h1
    · simp at h1; subst h1; exact sinv_new p

/-- replacing session `k` by `f x` where `f` keeps `holds` unchanged -/
theorem inv_upd {s : Sys} (h : Inv s) (k : Nat) (f : Sess → Sess)
    (hh : ∀ x p, holds p (f x) = holds p x) (hs : ∀ x, s.sess[k]? = some x → SInv x → SInv (f x)) : Inv (upd s k f) := by
  obtain ⟨refs, each⟩ := h
  unfold upd
  split
  · exact ⟨refs, each⟩
  · rename_i x hx
    constructor
    · intro p
      rw [refs p, Callback.countP_split (holds p) s.sess k x hx, Callback.countP_set_split (holds p) s.sess k x (f x) hx, hh]
    · intro y hy
      rcases List.mem_or_eq_of_mem_set hy with h1 | h1
      · exact each y h1
      · subst h1; exact hs x hx (each x (List.mem_of_getElem? hx))

theorem inv_close {s : Sys} (h : Inv s) (k : Nat) : Inv (close s k) := by
  unfold close
  split
  · exact h
  · rename_i x hx
    split
    · exact h
    · rename_i hsd
      apply inv_upd h k
      · intro y p; rfl
      · intro y hy hi
        have hyx : y = x := by rw [hx] at hy; exact (Option.some.inj hy).symm
        subst hyx
        have hnc : y.cleaned = false := by
          cases hc : y.cleaned with
          | false => rfl
          | true => exact absurd (hi.cleanedSd hc).1 (by simpa using hsd)
        have hnp : y.posted = false := by
          cases hc : y.posted with
          | false => rfl
          | true => exact absurd (hi.postedSd hc).1 (by simpa using hsd)
        constructor
        · intro _; exact ⟨rfl, hnc⟩
        · intro hc; simp [hnc] at hc
        · intro _; exact hi.live hnc
        · have := hi.notif; simp at hsd; simp [hsd] at this; simp [this]
        · intro _; left; rfl

theorem inv_cleanup {s : Sys} (h : Inv s) (k : Nat) : Inv (cleanup s k) := by
  unfold cleanup
  split
  · exact h
  · rename_i x hx
    split
    · exact h
    · rename_i hp
      have hxi := h.each x (List.mem_of_getElem? hx)
      have hp' : x.posted = true := by simpa using hp
      have hlive := hxi.live (hxi.postedSd hp').2
      -- the session stops holding its reference ...
      have e1 : ∀ p, (upd s k Sess.cleanedUp).sess.countP (holds p) + (if x.path = p then 1 else 0)
                    = s.sess.countP (holds p) := by
        intro p
        unfold upd; simp only [hx]
        rw [Callback.countP_split (holds p) s.sess k x hx, Callback.countP_set_split (holds p) s.sess k x _ hx]
        simp [holds, hlive.1, Sess.cleanedUp]
      have each1 : ∀ y ∈ (upd s k Sess.cleanedUp).sess, SInv y := by
        intro y hy
        unfold upd at hy; simp only [hx] at hy
        rcases List.mem_or_eq_of_mem_set hy with h1 | h1
        · exact h.each y h1
        · subst h1
          have hsd := (hxi.postedSd hp').1
          constructor <;> simp [hsd, Sess.cleanedUp]
          have := hxi.notif; simpa [hsd] using this
      have hr : (upd s k Sess.cleanedUp).refs = s.refs := by
        unfold upd; simp only [hx]
      generalize (upd s k Sess.cleanedUp) = s1 at e1 each1 hr
      have hrefs := h.refs
      simp only []
      split
      · rename_i hle
        constructor
        · intro p
          simp only [Sys.setRef]
          have := e1 p
          by_cases hpp : p = x.path
          · subst hpp; simp
            have h2 := hrefs x.path; rw [hr] at hle; simp at this; omega
          · have hne : ¬ x.path = p := fun hh => hpp hh.symm
            simp [hpp, hne] at this ⊢; rw [hr, hrefs p]; omega
        · exact each1
      · rename_i hgt
        constructor
        · intro p
          simp only [Sys.setRef]
          have := e1 p
          by_cases hpp : p = x.path
          · subst hpp; simp
            have h2 := hrefs x.path; rw [hr] at hgt ⊢; simp at this; omega
          · have hne : ¬ x.path = p := fun hh => hpp hh.symm
            simp [hpp, hne] at this ⊢; rw [hr, hrefs p]; omega
        · exact each1

theorem inv_openCheck {s : Sys} (h : Inv s) (k : Nat) : Inv (openCheck s k).1 := by
  unfold openCheck
  split
  · exact h
  · split
    · exact h
    · split
      · exact h
      · apply inv_upd h k
        · intro y p; rfl
        · intro y _ hi; exact ⟨hi.postedSd, hi.cleanedSd, hi.live, hi.notif, hi.sdDone⟩

theorem inv_openInsert {s : Sys} (h : Inv s) (k : Nat) : Inv (openInsert s k).1 := by
  unfold openInsert
  split
  · exact h
  · rename_i x hx
    split
    · exact h
    · split
      · apply inv_upd h k
        · intro y p; rfl
        · intro y _ hi; exact ⟨hi.postedSd, hi.cleanedSd, hi.live, hi.notif, hi.sdDone⟩
      · rename_i hnc
        apply inv_upd h k
        · intro y p; rfl
        · intro y hy hi
          have hyx : y = x := by rw [hx] at hy; exact (Option.some.inj hy).symm
          subst hyx
          refine ⟨hi.postedSd, ?_, hi.live, hi.notif, hi.sdDone⟩
          intro hc; exact absurd hc (by simpa using hnc)

theorem inv_step {s : Sys} (h : Inv s) (op : Op) : Inv (step s op) := by
  cases op with
  | newSess p => exact inv_newSess h p
  | close k => exact inv_close h k
  | cleanup k => exact inv_cleanup h k
  | openCheck k => exact inv_openCheck h k
  | openInsert k => exact inv_openInsert h k

theorem inv_run (ops : List Op) : ∀ s, Inv s → Inv (run s ops) := by
  induction ops with
  | nil => intro s h; exact h
  | cons op rest ih => intro s h; exact ih _ (inv_step h op)

end Lifecycle
