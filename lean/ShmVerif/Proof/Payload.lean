import ShmVerif.Proof.PipeSys
/-! Who can write a payload byte: only the end that holds the slot in its send buffer, or whoever pops it from a free list. -/
namespace LB
open List

theorem recycleChain_data : ∀ (fuel : Nat) (m : Mem) (off j : Nat), ((m.recycleChain fuel off).slot j).data = (m.slot j).data
  | 0, _, _, _ => rfl
  | f + 1, m, off, j => by
    unfold Mem.recycleChain
    cases hr : m.readSlice off with
    | none => rfl
    | some s =>
      simp only
      split
      · rw [recycleChain_data f _ _ j, recycle_data]
      · rw [recycle_data]

theorem clearPending_data : ∀ (ws : List Wrap) (m : Mem) (j : Nat), ((clearPending m ws).slot j).data = (m.slot j).data
  | [], _, _ => rfl
  | w :: ws, m, j => by
    unfold clearPending
    rw [foldl_cons]
    have := clearPending_data ws (clear1 m w) j
    unfold clearPending at this
    rw [this]
    cases w with
    | fb s => rfl
    | shm off => exact recycleChain_data _ m off j

theorem lrecycle_data (m : Mem) (l : LBuf) (j : Nat) : ((l.recycle m).1.slot j).data = (m.slot j).data := by
  unfold LBuf.recycle
  simp only
  rw [foldl_recycle_data, foldl_recycle_data]

theorem closeStream_data (m : Mem) (X : StreamM) (j : Nat) : ((closeStream m X).slot j).data = (m.slot j).data := by
  unfold closeStream
  simp only
  rw [lrecycle_data, lrecycle_data, clearPending_data]

variable {N : Nat}

/-- **Nobody else writes.** Whatever operation either end performs, the payload of a slot changes only if the slot was
    free (and has just been allocated by a writer) or sits in the send buffer of the end that performs a writer call. -/
theorem pstep_payload {s s' : PSys} {op : POp} (h : PInv N s) (e : pstep s op = some s') (p : Nat)
    (hf : p ∉ s.m.free.flatten) (ha : p ∉ heldL s.a.send) (hb : p ∉ heldL s.b.send) :
    (s'.m.slot p).data = (s.m.slot p).data := by
  have hsend : ∀ x : Bool, p ∉ heldL (s.get x).send := fun x => by cases x <;> assumption
  have mput : ∀ (x : Bool) (m' : Mem) (st : StreamM), (s.put x m' st).m = m' := fun x _ _ => by cases x <;> rfl
  have mput2 : ∀ (x : Bool) (m' : Mem) (st pr : StreamM), ((s.put x m' st).put (!x) m' pr).m = m' := fun x _ _ _ => by cases x <;> rfl
  cases op with
  | write x d =>
    obtain ⟨hx, _, _⟩ := h.side x
    simp only [pstep] at e
    cases hr : (s.get x).send.writeBytes s.m d with
    | none => rw [hr] at e; cases e
    | some r =>
      obtain ⟨m', l'⟩ := r
      rw [hr] at e
      simp only [Option.some.injEq] at e
      subst e
      rw [mput]
      by_cases hd : d = []
      · subst hd
        have : (s.get x).send.writeBytes s.m [] = some (s.m, (s.get x).send) := by unfold LBuf.writeBytes; simp
        rw [this] at hr
        simp only [Option.some.injEq, Prod.mk.injEq] at hr
        rw [← hr.1]
      · obtain ⟨m1, l1, e1, _, _, _, _, f1⟩ := writeBytes_spec s.m (s.get x).send d hx.wf hx.x.wbuf hd
        rw [e1] at hr
        simp only [Option.some.injEq, Prod.mk.injEq] at hr
        obtain ⟨rfl, rfl⟩ := hr
        exact f1.data p (fun hxx => hsend x (mem_append_left _ hxx)) hf
  | writeByte x b =>
    obtain ⟨hx, _, _⟩ := h.side x
    simp only [pstep] at e
    obtain ⟨m1, l1, e1, _, _, _, _, f1⟩ := writeByte_spec s.m (s.get x).send b hx.wf hx.x.wbuf
    rw [e1] at e
    simp only [Option.some.injEq] at e
    subst e
    rw [mput]
    exact f1.data p (fun hxx => hsend x (mem_append_left _ hxx)) hf
  | flush x =>
    obtain ⟨hx, _, _⟩ := h.side x
    simp only [pstep] at e
    split at e
    · cases e
    · simp only [Option.some.injEq] at e
      subst e
      rw [mput2]
      -- every branch of Flush: `done` writes headers, the fall-back transport recycles
      unfold flush
      split
      · rfl
      · cases hd : (s.get x).send.done s.m with
        | none => rfl
        | some r =>
          obtain ⟨m1, s1⟩ := r
          obtain ⟨rfl, _, hdata, _⟩ := done_facts s.m (s.get x).send m1 s1 hx.x.wbuf hd
          simp only
          split
          · show (((s.get x).send.recycle m1).1.slot p).data = _
            rw [lrecycle_data, hdata]
          · split
            · exact hdata p
            · split
              · exact hdata p
              · exact hdata p
  | more x =>
    obtain ⟨hx, _, _⟩ := h.side x
    simp only [pstep] at e
    obtain ⟨X', e1, _⟩ := hx.moreStep
    rw [e1] at e
    simp only [Option.some.injEq] at e
    subst e
    rw [mput]
  | readBytes x n =>
    obtain ⟨hx, _, _⟩ := h.side x
    simp only [pstep] at e
    cases hr : (s.get x).recv.readBytes s.m n with
    | none => rw [hr] at e; cases e
    | some r =>
      obtain ⟨m', r', d⟩ := r
      rw [hr] at e
      simp only [Option.some.injEq] at e
      subst e
      rw [mput]
      exact (readBytes_acct s.m (s.get x).recv n m' r' d hx.shape hx.x.recv hr).data p
  | peek x n =>
    simp only [pstep] at e
    cases hr : (s.get x).recv.peekBytes s.m n with
    | none => rw [hr] at e; cases e
    | some r =>
      obtain ⟨r', d⟩ := r
      rw [hr] at e
      simp only [Option.some.injEq] at e
      subst e
      rw [mput]
  | discard x n =>
    obtain ⟨hx, _, _⟩ := h.side x
    simp only [pstep] at e
    cases hr : (s.get x).recv.discard s.m n with
    | none => rw [hr] at e; cases e
    | some r =>
      obtain ⟨m', r', k⟩ := r
      rw [hr] at e
      simp only [Option.some.injEq] at e
      subst e
      rw [mput]
      exact (discard_acct s.m (s.get x).recv n m' r' k hx.shape hx.x.recv hr).data p
  | readByte x =>
    obtain ⟨hx, _, _⟩ := h.side x
    simp only [pstep] at e
    cases hr : (s.get x).recv.readByte s.m with
    | none => rw [hr] at e; cases e
    | some r =>
      obtain ⟨m', r', b⟩ := r
      rw [hr] at e
      simp only [Option.some.injEq] at e
      subst e
      rw [mput]
      exact (readByte_acct s.m (s.get x).recv m' r' b hx.shape hx.x.recv hr).data p
  | readString x n =>
    obtain ⟨hx, _, _⟩ := h.side x
    simp only [pstep] at e
    cases hr : (s.get x).recv.readString s.m n with
    | none => rw [hr] at e; cases e
    | some r =>
      obtain ⟨m', r', d⟩ := r
      rw [hr] at e
      simp only [Option.some.injEq] at e
      subst e
      rw [mput]
      exact (readString_acct s.m (s.get x).recv n m' r' d hx.shape hx.x.recv hr).data p
  | readInto x n =>
    obtain ⟨hx, _, _⟩ := h.side x
    simp only [pstep] at e
    cases hr : (s.get x).recv.readInto s.m n with
    | none => rw [hr] at e; cases e
    | some r =>
      obtain ⟨m', r', d⟩ := r
      rw [hr] at e
      simp only [Option.some.injEq] at e
      subst e
      rw [mput]
      exact (readInto_acct s.m (s.get x).recv n m' r' d hx.shape hx.x.recv hr).data p
  | release x =>
    obtain ⟨hx, _, _⟩ := h.side x
    simp only [pstep] at e
    simp only [Option.some.injEq] at e
    subst e
    rw [mput]
    exact (release_acct s.m (s.get x).recv hx.shape hx.x.recv).1.data p
  | close x =>
    simp only [pstep] at e
    simp only [Option.some.injEq] at e
    subst e
    rw [mput]
    exact closeStream_data _ _ p

end LB
