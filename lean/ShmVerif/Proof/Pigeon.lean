/-! A duplicate-free list of numbers below `n` has at most `n` elements; with exactly `n` it contains every number below `n`. -/
namespace Pigeon
open List

theorem length_le : ∀ (n : Nat) (l : List Nat), l.Nodup → (∀ x ∈ l, x < n) → l.length ≤ n := by
  intro n
  induction n with
  | zero =>
    intro l _ hlt
    cases l with
    | nil => simp
    | cons x xs => have := hlt x (by simp); omega
  | succ n ih =>
    intro l hnd hlt
    by_cases hn : n ∈ l
    · have h1 := ih (l.erase n) (hnd.erase n) (by
        intro x hx
        have hx' := (hnd.mem_erase_iff).mp hx
        have := hlt x hx'.2
        have := hx'.1
        omega)
      have h2 := List.length_erase_of_mem hn
      omega
    · have h1 := ih l hnd (by
        intro x hx
        have := hlt x hx
        have : x ≠ n := fun h => hn (h ▸ hx)
        omega)
      omega

theorem complete : ∀ (n : Nat) (l : List Nat), l.Nodup → (∀ x ∈ l, x < n) → l.length = n → ∀ i, i < n → i ∈ l := by
  intro n
  induction n with
  | zero => intro l _ _ _ i hi; omega
  | succ n ih =>
    intro l hnd hlt hlen i hi
    by_cases hn : n ∈ l
    · by_cases hin : i = n
      · subst hin; exact hn
      · have hlt' : ∀ x ∈ l.erase n, x < n := by
          intro x hx
          have hx' := (hnd.mem_erase_iff).mp hx
          have := hlt x hx'.2
          have := hx'.1
          omega
        have h2 := List.length_erase_of_mem hn
        have := ih (l.erase n) (hnd.erase n) hlt' (by omega) i (by omega)
        exact List.mem_of_mem_erase this
    · have hlt' : ∀ x ∈ l, x < n := by
        intro x hx
        have := hlt x hx
        have : x ≠ n := fun h => hn (h ▸ hx)
        omega
      have := length_le n l hnd hlt'
      omega

end Pigeon
