import ShmVerif.Model.QueueC
/-!
  Inductive invariant of the access-granular queue model, for every interleaving of any number of producers
  with the consumer, every capacity and every cursor base (wrap-around included).
-/
namespace QueueC

def rget (r : List Elem) (j : Nat) : Elem := r.getD j default

theorem rget_modify (r : List Elem) (i j : Nat) (f : Elem → Elem) :
    rget (r.modify i f) j = if i = j ∧ j < r.length then f (rget r j) else rget r j := by
  unfold rget
  simp only [List.getD_eq_getElem?_getD, List.getElem?_modify]
  by_cases h : i = j
  · subst h
    by_cases hl : i < r.length
    · simp [hl]
    · have : r[i]? = none := by simp; omega
      simp [this, hl]
  · simp [h]

/-- window injectivity of `% cap` -/
theorem mod_ne_of_window {c i j : Nat} (hij : i < j) (hw : j < i + c) : i % c ≠ j % c := by
  intro h
  have hc : 0 < c := by omega
  have h1 : (j - i) % c = 0 := Nat.sub_mod_eq_zero_of_mod_eq h.symm
  have h2 : c ∣ (j - i) := Nat.dvd_of_mod_eq_zero h1
  have h3 : c ≤ j - i := Nat.le_of_dvd (by omega) h2
  omega

def CritInv (s : State) : Prop :=
  match s.crit with
  | none => True
  | some c =>
    match c.pc with
    | .ldTail => True
    | .ldHead => c.tl = s.tail
    | .st0 => c.tl = s.tail ∧ s.tail < s.head + s.cap
    | .st1 => c.tl = s.tail ∧ s.tail < s.head + s.cap ∧ (rget s.ring (s.tail % s.cap)).seq = c.e.seq
    | .st2 => c.tl = s.tail ∧ s.tail < s.head + s.cap ∧ (rget s.ring (s.tail % s.cap)).seq = c.e.seq
                ∧ (rget s.ring (s.tail % s.cap)).off = c.e.off
    | .addTail => c.tl = s.tail ∧ s.tail < s.head + s.cap ∧ rget s.ring (s.tail % s.cap) = c.e
    | .unlockOk => True
    | .unlockFull => True

def ConsInv (s : State) : Prop :=
  match s.cons.pc with
  | .ldHead => True
  | .ldTail => s.cons.h = s.head
  | .ld0 => s.cons.h = s.head ∧ s.head < s.tail
  | .ld1 => s.cons.h = s.head ∧ s.head < s.tail ∧ s.cons.e.seq = (s.enq.getD s.head default).seq
  | .ld2 => s.cons.h = s.head ∧ s.head < s.tail ∧ s.cons.e.seq = (s.enq.getD s.head default).seq
              ∧ s.cons.e.off = (s.enq.getD s.head default).off
  | .addHead => s.cons.h = s.head ∧ s.head < s.tail ∧ s.cons.e = s.enq.getD s.head default

structure Inv (s : State) : Prop where
  ringLen : s.ring.length = s.cap
  hle : s.head ≤ s.tail
  bounded : s.tail ≤ s.head + s.cap
  enqLen : s.enq.length = s.tail
  deqEq : s.deq = s.enq.take s.head
  window : ∀ i, s.head ≤ i → i < s.tail → rget s.ring (i % s.cap) = s.enq.getD i default
  crit : CritInv s
  cons : ConsInv s

theorem inv_init (cap base : Nat) (prods : List (List Elem)) (pops : Nat) :
    Inv (init cap base prods pops) := by
  constructor <;> simp [init, CritInv, ConsInv]
  intro i h1 h2; omega

theorem elem_ext {a b : Elem} (h1 : a.seq = b.seq) (h2 : a.off = b.off) (h3 : a.st = b.st) : a = b := by
  cases a; cases b; simp_all

/-- a store by the lock holder into slot `tail % cap` does not disturb the published window -/
theorem window_store (s : State) (f : Elem → Elem) (h : Inv s) (hlt : s.tail < s.head + s.cap) :
    ∀ i, s.head ≤ i → i < s.tail →
      rget (s.ring.modify (s.tail % s.cap) f) (i % s.cap) = s.enq.getD i default := by
  intro i h1 h2
  rw [rget_modify]
  have hne : i % s.cap ≠ s.tail % s.cap := mod_ne_of_window h2 (by omega)
  have : ¬ (s.tail % s.cap = i % s.cap ∧ i % s.cap < s.ring.length) := by
    intro ⟨h, _⟩; exact hne h.symm
  simp only [this, if_false]
  exact h.window i h1 h2

theorem stepProd_inv (s : State) (t : Nat) (h : Inv s) : Inv (stepProd s t).1 := by
  unfold stepProd
  cases hc : s.crit with
  | none =>
    simp only
    split
    · -- acquire
      refine ⟨h.ringLen, h.hle, h.bounded, h.enqLen, h.deqEq, h.window, ?_, ?_⟩
      · simp [CritInv]
      · have := h.cons; simpa [ConsInv] using this
    · exact h
  | some c =>
    simp only
    have hcrit := h.crit
    simp only [CritInv, hc] at hcrit
    split
    · split <;> exact h
    · rename_i htid
      cases hpc : c.pc with
      | ldTail =>
        simp only
        refine ⟨h.ringLen, h.hle, h.bounded, h.enqLen, h.deqEq, h.window, ?_, ?_⟩
        · simp [CritInv]
        · have := h.cons; simpa [ConsInv] using this
      | ldHead =>
        simp only [hpc] at hcrit
        simp only
        split
        · refine ⟨h.ringLen, h.hle, h.bounded, h.enqLen, h.deqEq, h.window, ?_, ?_⟩
          · simp [CritInv]
          · have := h.cons; simpa [ConsInv] using this
        · rename_i hfull
          refine ⟨h.ringLen, h.hle, h.bounded, h.enqLen, h.deqEq, h.window, ?_, ?_⟩
          · simp only [CritInv]; omega
          · have := h.cons; simpa [ConsInv] using this
      | st0 =>
        simp only [hpc] at hcrit
        obtain ⟨htl, hlt⟩ := hcrit
        simp only
        have hcap : 0 < s.cap := by have := h.hle; omega
        have hidx : s.tail % s.cap < s.ring.length := by rw [h.ringLen]; exact Nat.mod_lt _ hcap
        refine ⟨?_, h.hle, h.bounded, h.enqLen, h.deqEq, ?_, ?_, ?_⟩
        · simp [setSeq, h.ringLen]
        · simpa [setSeq, State.idx, htl] using window_store s _ h hlt
        · simp only [CritInv, setSeq, State.idx, htl]
          refine ⟨trivial, hlt, ?_⟩
          rw [rget_modify]; simp [hidx]
        · have := h.cons; simpa [ConsInv] using this
      | st1 =>
        simp only [hpc] at hcrit
        obtain ⟨htl, hlt, hseq⟩ := hcrit
        simp only
        have hcap : 0 < s.cap := by have := h.hle; omega
        have hidx : s.tail % s.cap < s.ring.length := by rw [h.ringLen]; exact Nat.mod_lt _ hcap
        refine ⟨?_, h.hle, h.bounded, h.enqLen, h.deqEq, ?_, ?_, ?_⟩
        · simp [setOff, h.ringLen]
        · simpa [setOff, State.idx, htl] using window_store s _ h hlt
        · simp only [CritInv, setOff, State.idx, htl]
          refine ⟨trivial, hlt, ?_, ?_⟩ <;> (rw [rget_modify]; simp [hidx, hseq])
        · have := h.cons; simpa [ConsInv] using this
      | st2 =>
        simp only [hpc] at hcrit
        obtain ⟨htl, hlt, hseq, hoff⟩ := hcrit
        simp only
        have hcap : 0 < s.cap := by have := h.hle; omega
        have hidx : s.tail % s.cap < s.ring.length := by rw [h.ringLen]; exact Nat.mod_lt _ hcap
        refine ⟨?_, h.hle, h.bounded, h.enqLen, h.deqEq, ?_, ?_, ?_⟩
        · simp [setSt, h.ringLen]
        · simpa [setSt, State.idx, htl] using window_store s _ h hlt
        · simp only [CritInv, setSt, State.idx, htl]
          refine ⟨trivial, hlt, ?_⟩
          rw [rget_modify]; simp only [hidx, and_self, if_true]
          exact elem_ext hseq hoff rfl
        · have := h.cons; simpa [ConsInv] using this
      | addTail =>
        simp only [hpc] at hcrit
        obtain ⟨htl, hlt, hslot⟩ := hcrit
        simp only
        refine ⟨h.ringLen, by simp; have := h.hle; omega, by simp; omega, by simp [h.enqLen], ?_, ?_, ?_, ?_⟩
        · simp only [h.deqEq]
          rw [List.take_append_of_le_length (by rw [h.enqLen]; exact h.hle)]
        · intro i h1 h2
          simp only at h2
          by_cases hi : i < s.tail
          · rw [h.window i h1 hi]
            simp [List.getD_eq_getElem?_getD, List.getElem?_append_left (h.enqLen ▸ hi)]
          · have : i = s.tail := by omega
            subst this
            rw [hslot]
            simp [List.getD_eq_getElem?_getD, h.enqLen]
        · simp [CritInv]
        · have hcons := h.cons
          have hL : ∀ (x : Elem), (s.enq ++ [x]).getD s.head default = if s.head < s.tail then s.enq.getD s.head default else x := by
            intro x
            by_cases hh : s.head < s.tail
            · simp [hh, List.getD_eq_getElem?_getD, List.getElem?_append_left (h.enqLen ▸ hh)]
            · have : s.head = s.tail := by have := h.hle; omega
              simp [hh, this, List.getD_eq_getElem?_getD, h.enqLen]
          have hL' : s.head < s.tail → ∀ (x : Elem), (s.enq ++ [x]).getD s.head default = s.enq.getD s.head default := by
            intro hh x; rw [hL]; simp [hh]
          cases hp : s.cons.pc <;> simp only [ConsInv, hp] at hcons ⊢
          · exact hcons
          · exact ⟨hcons.1, by omega⟩
          · obtain ⟨a, b, c⟩ := hcons; exact ⟨a, by omega, by rw [hL' b]; exact c⟩
          · obtain ⟨a, b, c, d⟩ := hcons; exact ⟨a, by omega, by rw [hL' b]; exact c, by rw [hL' b]; exact d⟩
          · obtain ⟨a, b, c⟩ := hcons; exact ⟨a, by omega, by rw [hL' b]; exact c⟩
      | unlockOk =>
        simp only
        refine ⟨h.ringLen, h.hle, h.bounded, h.enqLen, h.deqEq, h.window, ?_, ?_⟩
        · simp [CritInv]
        · have := h.cons; simpa [ConsInv] using this
      | unlockFull =>
        simp only
        refine ⟨h.ringLen, h.hle, h.bounded, h.enqLen, h.deqEq, h.window, ?_, ?_⟩
        · simp [CritInv]
        · have := h.cons; simpa [ConsInv] using this


theorem critInv_headSucc (s : State) (h : CritInv s) (cons' : Cons) (pops' : Nat) (deq' : List Elem) (cres' : List Res) :
    CritInv { s with head := s.head + 1, cons := cons', pops := pops', deq := deq', cres := cres' } := by
  unfold CritInv at *
  cases hc : s.crit with
  | none => simp
  | some c =>
    simp only [hc] at h ⊢
    cases hpc : c.pc <;> simp only [hpc] at h ⊢ <;> first | trivial | exact h | skip
    · exact ⟨h.1, by omega⟩
    · exact ⟨h.1, by omega, h.2.2⟩
    · exact ⟨h.1, by omega, h.2.2⟩
    · exact ⟨h.1, by omega, h.2.2⟩

theorem critInv_cons (s : State) (h : CritInv s) (cons' : Cons) (pops' : Nat) (cres' : List Res) :
    CritInv { s with cons := cons', pops := pops', cres := cres' } := by
  unfold CritInv at *
  exact h

theorem stepCons_inv (s : State) (h : Inv s) : Inv (stepCons s).1 := by
  unfold stepCons
  split
  · exact h
  · have hcons := h.cons
    simp only
    cases hpc : s.cons.pc <;> simp only [ConsInv, hpc] at hcons <;> simp only
    · -- ldHead
      exact ⟨h.ringLen, h.hle, h.bounded, h.enqLen, h.deqEq, h.window, critInv_cons s h.crit _ _ _, by simp [ConsInv]⟩
    · -- ldTail
      split
      · exact ⟨h.ringLen, h.hle, h.bounded, h.enqLen, h.deqEq, h.window, critInv_cons s h.crit _ _ _, by simp [ConsInv]⟩
      · refine ⟨h.ringLen, h.hle, h.bounded, h.enqLen, h.deqEq, h.window, critInv_cons s h.crit _ _ _, ?_⟩
        simp only [ConsInv]; omega
    · -- ld0
      obtain ⟨a, b⟩ := hcons
      refine ⟨h.ringLen, h.hle, h.bounded, h.enqLen, h.deqEq, h.window, critInv_cons s h.crit _ _ _, ?_⟩
      have := h.window s.head (Nat.le_refl _) b
      simp only [ConsInv, State.idx, a]
      refine ⟨trivial, b, ?_⟩
      unfold rget at this; rw [this]
    · -- ld1
      obtain ⟨a, b, c⟩ := hcons
      refine ⟨h.ringLen, h.hle, h.bounded, h.enqLen, h.deqEq, h.window, critInv_cons s h.crit _ _ _, ?_⟩
      have := h.window s.head (Nat.le_refl _) b
      simp only [ConsInv, State.idx, a]
      refine ⟨trivial, b, c, ?_⟩
      unfold rget at this; rw [this]
    · -- ld2
      obtain ⟨a, b, c, d⟩ := hcons
      refine ⟨h.ringLen, h.hle, h.bounded, h.enqLen, h.deqEq, h.window, critInv_cons s h.crit _ _ _, ?_⟩
      have := h.window s.head (Nat.le_refl _) b
      simp only [ConsInv, State.idx, a]
      refine ⟨trivial, b, ?_⟩
      unfold rget at this; rw [this]
      exact elem_ext c d rfl
    · -- addHead
      obtain ⟨a, b, c⟩ := hcons
      refine ⟨h.ringLen, by simp; omega, by simp; have := h.bounded; omega, h.enqLen, ?_, ?_, ?_, by simp [ConsInv]⟩
      · simp only [h.deqEq, c]
        have hlt : s.head < s.enq.length := by rw [h.enqLen]; exact b
        rw [List.take_succ]
        simp [List.getD_eq_getElem?_getD, List.getElem?_eq_getElem hlt]
      · intro i h1 h2
        exact h.window i (by simp at h1; omega) h2
      · exact critInv_headSucc s h.crit _ _ _ _

theorem step_inv (s : State) (w : Who) (h : Inv s) : Inv (step s w) := by
  cases w with
  | none => exact stepCons_inv s h
  | some t => exact stepProd_inv s t h

theorem run_inv (s : State) (sched : List Who) (h : Inv s) : Inv (run s sched) := by
  induction sched generalizing s with
  | nil => exact h
  | cons w ws ih => exact ih _ (step_inv s w h)

end QueueC
