import ShmVerif.Model.Mux
/-!
  Message conservation in the message-level model `Mux`: every message ever flushed is, at all times, in exactly one
  place — the sender's queue, the control connection, one stream's buffer, or released.  Stated per token with
  `List.count`; needs that stream ids are unique per end and that a stream outside the table buffers nothing.
-/
namespace Mux
open List

def qTokens (q : List QEl) : List Nat := (q.filter (fun el => !el.isClose)).map (·.msg)
def kTok : Ev → Option Nat | .fb _ m => some m | _ => none
def kTokens (k : List Ev) : List Nat := k.filterMap kTok
def bufAll (e : MEnd) : List Nat := e.streams.flatMap (·.buffered)

/-- how many places hold token `t` -/
def occ (s : Sys) (t : Nat) : Nat :=
  s.retired.count t + (qTokens (s.ch .a).q).count t + (qTokens (s.ch .b).q).count t +
  (kTokens (s.ch .a).k).count t + (kTokens (s.ch .b).k).count t + (bufAll (s.me .a)).count t + (bufAll (s.me .b)).count t

def Uniq (e : MEnd) : Prop := (e.streams.map (·.id)).Nodup
def Clean (e : MEnd) : Prop := ∀ st ∈ e.streams, e.registered st.id = false → st.buffered = []

theorem qTokens_append (a b : List QEl) : qTokens (a ++ b) = qTokens a ++ qTokens b := by simp [qTokens]
theorem kTokens_append (a b : List Ev) : kTokens (a ++ b) = kTokens a ++ kTokens b := by simp [kTokens]

/-- with unique ids, `find` returns the only stream with that id, and `upd` touches only it -/
theorem upd_count (streams : List MStream) (i : Nat) (f : MStream → MStream) (t : Nat)
    (hu : (streams.map (·.id)).Nodup) :
    match streams.find? (·.id = i) with
    | none => (streams.map (fun x => if x.id = i then f x else x)).flatMap (·.buffered) = streams.flatMap (·.buffered)
    | some st => ((streams.map (fun x => if x.id = i then f x else x)).flatMap (·.buffered)).count t + st.buffered.count t
                  = (streams.flatMap (·.buffered)).count t + (f st).buffered.count t := by
  induction streams with
  | nil => simp
  | cons y ys ih =>
    simp only [List.map_cons, List.nodup_cons] at hu
    by_cases hy : y.id = i
    · -- y is the one; nothing in ys has this id
      have hnone : ∀ z ∈ ys, ¬ z.id = i := by
        intro z hz hzid
        exact hu.1 (List.mem_map.mpr ⟨z, hz, hzid.trans hy.symm⟩)
      have hmap : ys.map (fun x => if x.id = i then f x else x) = ys := by
        have : ys.map (fun x => if x.id = i then f x else x) = ys.map _root_.id :=
          List.map_congr_left (fun z hz => by simp [hnone z hz])
        rw [this, List.map_id]
      simp only [List.find?_cons, hy, decide_true, List.map_cons, if_true, List.flatMap_cons, List.count_append, hmap]
      omega
    · have := ih hu.2
      simp only [List.find?_cons, hy, decide_false, List.map_cons, if_false, List.flatMap_cons, List.count_append]
      cases hf : ys.find? (·.id = i) with
      | none => simp only [hf] at this ⊢; rw [this]
      | some st => simp only [hf] at this ⊢; omega

theorem map_id_of_upd (streams : List MStream) (i : Nat) (f : MStream → MStream) (hf : ∀ y, (f y).id = y.id) :
    (streams.map (fun x => if x.id = i then f x else x)).map (·.id) = streams.map (·.id) := by
  rw [List.map_map]
  apply List.map_congr_left
  intro y _
  simp only [Function.comp]
  split
  · exact hf y
  · rfl

theorem uniq_upd {e : MEnd} (h : Uniq e) (i : Nat) (f : MStream → MStream) (hf : ∀ y, (f y).id = y.id) : Uniq (e.upd i f) := by
  unfold Uniq MEnd.upd at *
  simp only []
  rw [map_id_of_upd _ _ _ hf]; exact h

/-- `upd` with a function that keeps the buffered messages changes no count -/
theorem bufAll_upd_same {e : MEnd} (hu : Uniq e) (i : Nat) (f : MStream → MStream) (hb : ∀ y, (f y).buffered = y.buffered) (t : Nat) :
    (bufAll (e.upd i f)).count t = (bufAll e).count t := by
  have h := upd_count e.streams i f t hu
  unfold bufAll MEnd.upd
  simp only []
  cases hf : e.streams.find? (·.id = i) with
  | none => simp only [hf] at h; rw [h]
  | some st => simp only [hf] at h; rw [hb st] at h; omega

/-- `upd` with a function that empties the buffer of the (unique) stream found -/
theorem bufAll_upd_clear {e : MEnd} (hu : Uniq e) (i : Nat) (f : MStream → MStream) (st : MStream)
    (hfind : e.find i = some st) (hb : (f st).buffered = []) (t : Nat) :
    (bufAll (e.upd i f)).count t + st.buffered.count t = (bufAll e).count t := by
  have h := upd_count e.streams i f t hu
  unfold MEnd.find at hfind
  unfold bufAll MEnd.upd
  simp only [hfind] at h
  simp only []
  rw [hb] at h; simpa using h

theorem clean_upd {e : MEnd} (h : Clean e) (i : Nat) (f : MStream → MStream) (hf : ∀ y, (f y).id = y.id)
    (hb : ∀ y, (f y).buffered = y.buffered ∨ (f y).buffered = []) : Clean (e.upd i f) := by
  intro st hst hreg
  unfold MEnd.upd at hst
  simp only [] at hst
  obtain ⟨y, hy, rfl⟩ := List.mem_map.mp hst
  have hid : (if y.id = i then f y else y).id = y.id := by
    by_cases c : y.id = i
    · simp [c, hf y]
    · simp [c]
  have hreg' : e.registered y.id = false := by
    rw [hid] at hreg; exact hreg
  by_cases c : y.id = i
  · simp only [c, if_true]
    rcases hb y with h1 | h1
    · rw [h1]; exact h y hy hreg'
    · exact h1
  · simp only [c, if_false]; exact h y hy hreg'

structure CInv (s : Sys) : Prop where
  uniq : ∀ x, Uniq (s.me x)
  clean : ∀ x, Clean (s.me x)
  cons : ∀ t, occ s t = if t < s.fresh then 1 else 0

@[simp] theorem me_setMe (s : Sys) (x y : Side) (e : MEnd) : (s.setMe x e).me y = if y = x then e else s.me y := by
  simp [Sys.setMe, Sys.me, upd]
@[simp] theorem ch_setMe (s : Sys) (x : Side) (e : MEnd) : (s.setMe x e).ch = s.ch := rfl
@[simp] theorem me_setCh (s : Sys) (x y : Side) (c : Chan) : (s.setCh x c).me y = s.me y := rfl
@[simp] theorem ch_setCh (s : Sys) (x y : Side) (c : Chan) : (s.setCh x c).ch y = if y = x then c else s.ch y := by
  simp [Sys.setCh, upd]
@[simp] theorem retired_setMe (s : Sys) (x : Side) (e : MEnd) : (s.setMe x e).retired = s.retired := rfl
@[simp] theorem retired_setCh (s : Sys) (x : Side) (c : Chan) : (s.setCh x c).retired = s.retired := rfl
@[simp] theorem fresh_setMe (s : Sys) (x : Side) (e : MEnd) : (s.setMe x e).fresh = s.fresh := rfl
@[simp] theorem fresh_setCh (s : Sys) (x : Side) (c : Chan) : (s.setCh x c).fresh = s.fresh := rfl

theorem cinv_init : CInv {} := by
  refine ⟨?_, ?_, ?_⟩
  · intro x; cases x <;> simp [Uniq, Sys.me]
  · intro x; cases x <;> simp [Clean, Sys.me]
  · intro t; simp [occ, Sys.me, qTokens, kTokens, bufAll]

/-- replacing end `x` by one with the same buffered counts, unique ids and clean -/
theorem cinv_setMe_same {s : Sys} (h : CInv s) (x : Side) (e : MEnd) (hu : Uniq e) (hc : Clean e)
    (hb : ∀ t, (bufAll e).count t = (bufAll (s.me x)).count t) : CInv (s.setMe x e) := by
  obtain ⟨uniq, clean, cons⟩ := h
  refine ⟨?_, ?_, ?_⟩
  · intro y; simp only [me_setMe]; split
    · exact hu
    · exact uniq y
  · intro y; simp only [me_setMe]; split
    · exact hc
    · exact clean y
  · intro t
    have := cons t
    have hbt := hb t
    simp only [occ, me_setMe, ch_setMe, retired_setMe, fresh_setMe] at this ⊢
    cases x <;> simp only [if_true, reduceCtorEq, if_false] <;> (rw [hbt]; exact this)

theorem find_none_of (e : MEnd) (i : Nat) (h : e.find i = none) : ∀ st ∈ e.streams, st.id ≠ i := by
  intro st hst hid
  unfold MEnd.find at h
  have := List.find?_eq_none.mp h st hst
  simp [hid] at this

theorem cinv_open {s : Sys} (h : CInv s) (x : Side) : CInv (openStream s x).1 := by
  unfold openStream
  simp only []
  split
  · -- id in use: only nextId moves
    have : CInv (s.setMe x { s.me x with nextId := (s.me x).nextId + 1 }) :=
      cinv_setMe_same h x _ (h.uniq x) (h.clean x) (fun _ => rfl)
    exact this
  · rename_i hf
    have hnone : (s.me x).find ((s.me x).nextId + 1) = none := by
      cases hh : (s.me x).find ((s.me x).nextId + 1) with
      | none => rfl
      | some v => simp [hh] at hf
    apply cinv_setMe_same h x
    · unfold Uniq; simp only [List.map_append, List.map_cons, List.map_nil]
      rw [List.nodup_append]
      refine ⟨h.uniq x, by simp, ?_⟩
      intro a ha b hb
      simp at hb; subst hb
      obtain ⟨st, hst, rfl⟩ := List.mem_map.mp ha
      exact find_none_of _ _ hnone st hst
    · intro st hst hreg
      rcases List.mem_append.mp hst with h1 | h1
      · apply h.clean x st h1
        simp only [MEnd.registered, List.contains_append, Bool.or_eq_false_iff] at hreg
        exact hreg.1
      · simp at h1; subst h1; rfl
    · intro t; simp [bufAll, List.flatMap_append]

theorem cinv_add_token {s s' : Sys} (h : CInv s) (hu : ∀ x, Uniq (s'.me x)) (hc : ∀ x, Clean (s'.me x))
    (hf : s'.fresh = s.fresh + 1) (ho : ∀ t, occ s' t = occ s t + (if t = s.fresh then 1 else 0)) : CInv s' := by
  refine ⟨hu, hc, ?_⟩
  intro t
  rw [ho t, h.cons t, hf]
  by_cases h1 : t < s.fresh
  · have : ¬ t = s.fresh := by omega
    have h2 : t < s.fresh + 1 := by omega
    simp [h1, this, h2]
  · by_cases h2 : t = s.fresh
    · subst h2; simp
    · have : ¬ t < s.fresh + 1 := by omega
      simp [h1, h2, this]

theorem cinv_same_occ {s s' : Sys} (h : CInv s) (hu : ∀ x, Uniq (s'.me x)) (hc : ∀ x, Clean (s'.me x))
    (hf : s'.fresh = s.fresh) (ho : ∀ t, occ s' t = occ s t) : CInv s' := by
  refine ⟨hu, hc, ?_⟩
  intro t; rw [ho t, h.cons t, hf]

theorem kTokens_wake (c : Chan) : kTokens c.wake.k = kTokens c.k := by
  unfold Chan.wake; split
  · rfl
  · simp [kTokens_append, kTokens, kTok]

theorem qTokens_wake (c : Chan) : qTokens c.wake.q = qTokens c.q := by
  unfold Chan.wake; split <;> rfl

theorem qTokens_data (i m : Nat) : qTokens [{ sid := i, msg := m, isClose := false }] = [m] := by simp [qTokens]
theorem qTokens_close (i m : Nat) : qTokens [{ sid := i, msg := m, isClose := true }] = [] := by simp [qTokens]

theorem count_single (t m : Nat) : ([m] : List Nat).count t = if t = m then 1 else 0 := by
  by_cases h : t = m
  · subst h; simp
  · have : ¬ m = t := fun hh => h hh.symm
    simp [h, List.count_cons, this]

theorem cinv_flush {s : Sys} (h : CInv s) (x : Side) (i : Nat) (heap : Bool) : CInv (flush s x i heap).1 := by
  unfold flush
  cases hfind : (s.me x).find i with
  | none => exact h
  | some st =>
    let f : MStream → MStream := fun y => { y with inFb := true }
    have hup : ∀ y, Uniq (((s.setMe x ((s.me x).upd i f)).me y)) := by
      intro y; simp only [me_setMe]; split
      · exact uniq_upd (h.uniq x) i f (fun _ => rfl)
      · exact h.uniq y
    have hcl : ∀ y, Clean (((s.setMe x ((s.me x).upd i f)).me y)) := by
      intro y; simp only [me_setMe]; split
      · exact clean_upd (h.clean x) i f (fun _ => rfl) (fun _ => Or.inl rfl)
      · exact h.clean y
    have hbuf : ∀ t, (bufAll ((s.me x).upd i f)).count t = (bufAll (s.me x)).count t :=
      fun t => bufAll_upd_same (h.uniq x) i f (fun _ => rfl) t
    dsimp only
    split
    · -- not open: released at once
      refine cinv_add_token (s' := { s with fresh := s.fresh + 1, retired := s.retired ++ [s.fresh] }) h h.uniq h.clean rfl ?_
      intro t; simp only [occ, Sys.me, List.count_append, count_single]; omega
    · split
      · -- fall-back: onto the connection
        refine cinv_add_token h (fun y => hup y) (fun y => hcl y) rfl ?_
        intro t
        have hb := hbuf t
        cases x <;> simp [occ, Sys.me, Sys.setMe, Sys.setCh, upd, kTokens_append, kTokens, kTok, List.count_append, count_single, f] at hb ⊢ <;> omega
      · split
        · refine cinv_add_token (s' := { s with fresh := s.fresh + 1, retired := s.retired ++ [s.fresh] }) h h.uniq h.clean rfl ?_
          intro t; simp only [occ, Sys.me, List.count_append, count_single]; omega
        · refine cinv_add_token h (fun y => h.uniq y) (fun y => h.clean y) rfl ?_
          intro t
          cases x <;> simp [occ, Sys.me, Sys.setCh, upd, kTokens_wake, qTokens_wake, qTokens_append, qTokens_data, List.count_append, count_single] <;> omega

theorem cinv_consume {s : Sys} (h : CInv s) (x : Side) (i : Nat) : CInv (consume s x i) := by
  unfold consume
  cases hfind : (s.me x).find i with
  | none => exact h
  | some st =>
    let f : MStream → MStream := fun y => { y with buffered := [] }
    dsimp only
    refine cinv_same_occ h ?_ ?_ rfl ?_
    · intro y; simp only [me_setMe]; split
      · exact uniq_upd (h.uniq x) i f (fun _ => rfl)
      · exact h.uniq y
    · intro y; simp only [me_setMe]; split
      · exact clean_upd (h.clean x) i f (fun _ => rfl) (fun _ => Or.inr rfl)
      · exact h.clean y
    · intro t
      have hb := bufAll_upd_clear (h.uniq x) i f st hfind rfl t
      cases x <;> simp [occ, Sys.me, Sys.setMe, upd, List.count_append, f] at hb ⊢ <;> omega

theorem cinv_moved {s : Sys} (h : CInv s) (x : Side) (i : Nat) : CInv (moved s x i) := by
  unfold moved
  let f : MStream → MStream := fun y => { y with inFb := y.inFb || y.fbPending, fbPending := false }
  exact cinv_setMe_same h x _ (uniq_upd (h.uniq x) i f (fun _ => rfl))
    (clean_upd (h.clean x) i f (fun _ => rfl) (fun _ => Or.inl rfl))
    (fun t => bufAll_upd_same (h.uniq x) i f (fun _ => rfl) t)

theorem contains_filter_ne (l : List Nat) (i j : Nat) (hj : j ≠ i) : (l.filter (· ≠ i)).contains j = l.contains j := by
  induction l with
  | nil => rfl
  | cons a as ih =>
    simp only [List.filter_cons]
    by_cases ha : a = i
    · subst ha
      have : ¬ (a ≠ a) := by simp
      simp only [this, decide_false, Bool.false_eq_true, if_false, ih, List.contains_cons]
      have : (j == a) = false := by simp [hj]
      simp [this]
    · simp only [ne_eq, ha, not_false_eq_true, decide_true, if_true, List.contains_cons, ih]

theorem cinv_close {s : Sys} (h : CInv s) (x : Side) (i : Nat) : CInv (closeStream s x i).1 := by
  unfold closeStream
  cases hfind : (s.me x).find i with
  | none => exact h
  | some st =>
    dsimp only
    split
    · exact h
    · let f : MStream → MStream := fun y => { y with state := .closed, buffered := [], fbPending := false }
      -- the state after the local part of the close
      have h1 : CInv ({ s with retired := s.retired ++ st.buffered }.setMe x
                  { ((s.me x).upd i f) with table := ((s.me x).upd i f).table.filter (· ≠ i) }) := by
        refine cinv_same_occ h ?_ ?_ rfl ?_
        · intro y; simp only [me_setMe]; split
          · exact uniq_upd (h.uniq x) i f (fun _ => rfl)
          · exact h.uniq y
        · intro y; simp only [me_setMe]; split
          · intro z hz hreg
            simp only [MEnd.upd] at hz
            obtain ⟨y0, hy0, rfl⟩ := List.mem_map.mp hz
            by_cases c : y0.id = i
            · simp [c, f]
            · simp only [c, if_false] at hreg ⊢
              apply h.clean x y0 hy0
              simp only [MEnd.registered, MEnd.upd] at hreg ⊢
              rw [contains_filter_ne _ _ _ c] at hreg; exact hreg
          · exact h.clean y
        · intro t
          have hb := bufAll_upd_clear (h.uniq x) i f st hfind rfl t
          have hb' : (bufAll { ((s.me x).upd i f) with table := ((s.me x).upd i f).table.filter (· ≠ i) }).count t = (bufAll ((s.me x).upd i f)).count t := rfl
          cases x <;> simp [occ, Sys.me, Sys.setMe, upd, List.count_append] at hb hb' ⊢ <;> omega
      generalize ({ s with retired := s.retired ++ st.buffered }.setMe x
                  { ((s.me x).upd i f) with table := ((s.me x).upd i f).table.filter (· ≠ i) }) = s1 at h1
      split
      · -- announce the close: a close element or a close event, never a data token
        split
        · refine cinv_same_occ h1 (fun y => h1.uniq y) (fun y => h1.clean y) rfl ?_
          intro t
          cases x <;> simp [occ, Sys.me, Sys.setCh, upd, kTokens_append, kTokens, kTok, List.filterMap_cons]
        · refine cinv_same_occ h1 (fun y => h1.uniq y) (fun y => h1.clean y) rfl ?_
          intro t
          cases x <;> simp [occ, Sys.me, Sys.setCh, upd, kTokens_wake, qTokens_wake, qTokens_append, qTokens_close]
      · exact h1

/-- conservation with some tokens "in hand" (taken out of a channel, not yet placed) -/
structure CInvH (s : Sys) (hand : List Nat) : Prop where
  uniq : ∀ x, Uniq (s.me x)
  clean : ∀ x, Clean (s.me x)
  cons : ∀ t, occ s t + hand.count t = if t < s.fresh then 1 else 0

theorem cinvH_nil {s : Sys} : CInvH s [] ↔ CInv s := by
  constructor
  · intro h; exact ⟨h.uniq, h.clean, fun t => by simpa using h.cons t⟩
  · intro h; exact ⟨h.uniq, h.clean, fun t => by simpa using h.cons t⟩

theorem filter_drop_empty (streams : List MStream) (p : MStream → Bool) (t : Nat)
    (h : ∀ st ∈ streams, p st = false → st.buffered = []) :
    ((streams.filter p).flatMap (·.buffered)).count t = (streams.flatMap (·.buffered)).count t := by
  induction streams with
  | nil => rfl
  | cons y ys ih =>
    have ih' := ih (fun st hst => h st (List.mem_cons_of_mem _ hst))
    simp only [List.filter_cons]
    cases hp : p y with
    | true => simp [List.flatMap_cons, List.count_append, ih']
    | false =>
      have := h y List.mem_cons_self hp
      simp [List.flatMap_cons, this, ih']

theorem getStream_cons {e : MEnd} (hu : Uniq e) (hc : Clean e) (i : Nat) (o : Bool) :
    Uniq (getStream e i o).1 ∧ Clean (getStream e i o).1 ∧ ∀ t, (bufAll (getStream e i o).1).count t = (bufAll e).count t := by
  unfold getStream
  split
  · exact ⟨hu, hc, fun _ => rfl⟩
  · rename_i hreg
    split
    · refine ⟨?_, ?_, ?_⟩
      · unfold Uniq at *
        simp only [List.map_append, List.map_cons, List.map_nil]
        rw [List.nodup_append]
        refine ⟨(List.filter_sublist.map _).nodup hu, by simp, ?_⟩
        intro a ha b hb
        simp at hb; subst hb
        obtain ⟨st, hst, rfl⟩ := List.mem_map.mp ha
        have := (List.mem_filter.mp hst).2
        simpa using this
      · intro st hst hr
        rcases List.mem_append.mp hst with h1 | h1
        · have hm := List.mem_filter.mp h1
          apply hc st hm.1
          simp only [MEnd.registered, List.contains_append, Bool.or_eq_false_iff] at hr ⊢
          exact hr.1
        · simp at h1; subst h1; rfl
      · intro t
        simp only [bufAll, List.flatMap_append, List.count_append]
        have := filter_drop_empty e.streams (fun x => !decide (x.id = i)) t (by
          intro st hst hp
          have hid : st.id = i := by simpa using hp
          apply hc st hst
          rw [hid]; simpa using hreg)
        simp only [decide_not] at this ⊢
        simp [this]
    · exact ⟨hu, hc, fun _ => rfl⟩

theorem getStream_found_registered (e : MEnd) (i : Nat) (o : Bool) (h : (getStream e i o).2 = true) :
    (getStream e i o).1.registered i = true := by
  unfold getStream at h ⊢
  split
  · rename_i hr; simpa using hr
  · split
    · simp [MEnd.registered]
    · rename_i h1 h2
      have h2' : ¬ (e.isClient = false ∧ o = true) := by simpa using h2
      simp [h1, h2'] at h

theorem cinvH_setMe_same {s : Sys} {hand : List Nat} (h : CInvH s hand) (x : Side) (e : MEnd) (hu : Uniq e) (hc : Clean e)
    (hb : ∀ t, (bufAll e).count t = (bufAll (s.me x)).count t) : CInvH (s.setMe x e) hand := by
  obtain ⟨uniq, clean, cons⟩ := h
  refine ⟨?_, ?_, ?_⟩
  · intro y; simp only [me_setMe]; split
    · exact hu
    · exact uniq y
  · intro y; simp only [me_setMe]; split
    · exact hc
    · exact clean y
  · intro t
    have := cons t
    have hbt := hb t
    simp only [occ, me_setMe, ch_setMe, retired_setMe, fresh_setMe] at this ⊢
    cases x <;> simp only [if_true, reduceCtorEq, if_false] <;> (rw [hbt]; exact this)

theorem cinvH_closeNote {s : Sys} {hand : List Nat} (h : CInvH s hand) (x : Side) (i : Nat) : CInvH (closeNote s x i) hand := by
  unfold closeNote
  split
  · exact cinvH_setMe_same h x _ (uniq_upd (h.uniq x) i halfClose (fun y => by unfold halfClose; split <;> rfl))
      (clean_upd (h.clean x) i halfClose (fun y => by unfold halfClose; split <;> rfl) (fun y => Or.inl (by unfold halfClose; split <;> rfl)))
      (fun t => bufAll_upd_same (h.uniq x) i halfClose (fun y => by unfold halfClose; split <;> rfl) t)
  · exact h

theorem bufAll_upd_append {e : MEnd} (hu : Uniq e) (i : Nat) (f : MStream → MStream) (st : MStream) (m : Nat)
    (hfind : e.find i = some st) (hb : (f st).buffered = st.buffered ++ [m]) (t : Nat) :
    (bufAll (e.upd i f)).count t = (bufAll e).count t + (if t = m then 1 else 0) := by
  have h := upd_count e.streams i f t hu
  unfold MEnd.find at hfind
  unfold bufAll MEnd.upd
  simp only [hfind] at h
  simp only []
  rw [hb, List.count_append, count_single] at h
  omega

theorem count_cons' (t m : Nat) (l : List Nat) : (m :: l).count t = l.count t + (if t = m then 1 else 0) := by
  rw [List.count_cons]
  by_cases c : t = m
  · subst c; simp
  · have : ¬ m = t := fun hh => c hh.symm
    simp [c, this]

theorem cinvH_transfer {s s' : Sys} {hand hand' : List Nat} (h : CInvH s hand) (hu : ∀ x, Uniq (s'.me x)) (hc : ∀ x, Clean (s'.me x))
    (hf : s'.fresh = s.fresh) (ho : ∀ t, occ s' t + hand'.count t = occ s t + hand.count t) : CInvH s' hand' := by
  refine ⟨hu, hc, ?_⟩
  intro t; rw [ho t, hf]; exact h.cons t

theorem cinvH_retire {s : Sys} {hand : List Nat} (m : Nat) (h : CInvH s (m :: hand)) :
    CInvH { s with retired := s.retired ++ [m] } hand := by
  refine cinvH_transfer h h.uniq h.clean rfl ?_
  intro t
  simp only [occ, Sys.me, List.count_append, count_cons', List.count_nil]
  omega

theorem cinvH_offer {s : Sys} {hand : List Nat} (x : Side) (i m : Nat) (v : Bool) (h : CInvH s (m :: hand)) :
    CInvH (offer s x i m v) hand := by
  unfold offer
  obtain ⟨gu, gc, gb⟩ := getStream_cons (h.uniq x) (h.clean x) i true
  have gr := getStream_found_registered (s.me x) i true
  generalize hg : getStream (s.me x) i true = g at gu gc gb gr
  obtain ⟨e', found⟩ := g
  simp only [] at gu gc gb gr ⊢
  -- the ghost bookkeeping (arrived / recreated) and the possibly re-created stream object
  have h1 : CInvH (({ s with arrived := s.arrived ++ [(x, i, m)], recreated := if recreates (s.me x) i then s.recreated ++ [(x, i)] else s.recreated } : Sys).setMe x e') (m :: hand) :=
    cinvH_setMe_same (s := { s with arrived := s.arrived ++ [(x, i, m)], recreated := if recreates (s.me x) i then s.recreated ++ [(x, i)] else s.recreated }) ⟨h.uniq, h.clean, h.cons⟩ x e' gu gc gb
  have hme : (({ s with arrived := s.arrived ++ [(x, i, m)], recreated := if recreates (s.me x) i then s.recreated ++ [(x, i)] else s.recreated } : Sys).setMe x e').me x = e' := by simp
  generalize (({ s with arrived := s.arrived ++ [(x, i, m)], recreated := if recreates (s.me x) i then s.recreated ++ [(x, i)] else s.recreated } : Sys).setMe x e') = s1 at h1 hme
  split
  · rename_i hfound
    have hregd : (s1.me x).registered i = true := by rw [hme]; exact gr hfound
    cases hfind : (s1.me x).find i with
    | none => exact cinvH_retire m h1
    | some st =>
      simp only []
      split
      · exact cinvH_retire m h1
      · let f : MStream → MStream := fun y => { y with buffered := y.buffered ++ [m], fbPending := y.fbPending || v }
        have hb := fun t => bufAll_upd_append (h1.uniq x) i f st m hfind rfl t
        refine cinvH_transfer h1 ?_ ?_ rfl ?_
        · intro y
          show Uniq ((s1.setMe x ((s1.me x).upd i f)).me y)
          simp only [me_setMe]; split
          · exact uniq_upd (h1.uniq x) i f (fun _ => rfl)
          · exact h1.uniq y
        · intro y
          show Clean ((s1.setMe x ((s1.me x).upd i f)).me y)
          simp only [me_setMe]; split
          · intro z hz hreg
            simp only [MEnd.upd] at hz
            obtain ⟨y0, hy0, rfl⟩ := List.mem_map.mp hz
            by_cases c : y0.id = i
            · rw [if_pos c] at hreg
              have : (f y0).id = i := c
              rw [this] at hreg
              have hr2 : ((s1.me x).upd i f).registered i = (s1.me x).registered i := rfl
              rw [hr2, hregd] at hreg; cases hreg
            · rw [if_neg c] at hreg ⊢
              exact h1.clean x y0 hy0 hreg
          · exact h1.clean y
        · intro t
          have hbt := hb t
          simp only [count_cons']
          cases x <;> simp [occ, Sys.me, Sys.setMe, upd, f] at hbt ⊢ <;> omega
  · exact cinvH_retire m h1

theorem qTokens_cons (el : QEl) (rest : List QEl) :
    qTokens (el :: rest) = if el.isClose then qTokens rest else el.msg :: qTokens rest := by
  unfold qTokens
  cases h : el.isClose <;> simp [List.filter_cons, h]

theorem cinvH_drain (x : Side) (hand : List Nat) : ∀ (q : List QEl) (s : Sys), CInvH s (qTokens q ++ hand) → CInvH (drain q s x) hand := by
  intro q
  induction q with
  | nil => intro s h; simpa [drain, qTokens] using h
  | cons el rest ih =>
    intro s h
    unfold drain
    rw [qTokens_cons] at h
    cases hc : el.isClose with
    | true =>
      simp only [hc, if_true] at h ⊢
      exact ih _ (cinvH_closeNote h x el.sid)
    | false =>
      simp only [hc, Bool.false_eq_true, if_false] at h ⊢
      exact ih _ (cinvH_offer x el.sid el.msg false h)

theorem fm_polling (rest : List Ev) : List.filterMap kTok (Ev.polling :: rest) = List.filterMap kTok rest := by
  simp [List.filterMap_cons, kTok]
theorem fm_close (i : Nat) (rest : List Ev) : List.filterMap kTok (Ev.close i :: rest) = List.filterMap kTok rest := by
  simp [List.filterMap_cons, kTok]
theorem fm_fb (i m : Nat) (rest : List Ev) : List.filterMap kTok (Ev.fb i m :: rest) = m :: List.filterMap kTok rest := by
  simp [List.filterMap_cons, kTok]

theorem cinv_deliver {s : Sys} (h : CInv s) (x : Side) : CInv (deliver s x).1 := by
  unfold deliver
  dsimp only
  cases hk : (s.ch x.peer).k with
  | nil => exact h
  | cons ev rest =>
    have hH := cinvH_nil.mpr h
    cases ev with
    | polling =>
      simp only []
      apply cinvH_nil.mp
      apply cinvH_drain x [] (s.ch x.peer).q
      refine cinvH_transfer hH (fun y => h.uniq y) (fun y => h.clean y) rfl ?_
      intro t
      cases x <;> simp only [Side.peer] at hk <;> simp [occ, Sys.me, Sys.setCh, upd, Side.peer, hk, kTokens, fm_polling, qTokens, List.count_append] <;> omega
    | close id =>
      simp only []
      apply cinvH_nil.mp
      apply cinvH_closeNote
      refine cinvH_transfer hH (fun y => h.uniq y) (fun y => h.clean y) rfl ?_
      intro t
      cases x <;> simp only [Side.peer] at hk <;> simp [occ, Sys.me, Sys.setCh, upd, Side.peer, hk, kTokens, fm_close]
    | fb id msg =>
      simp only []
      apply cinvH_nil.mp
      apply cinvH_offer x id msg true
      refine cinvH_transfer hH (fun y => h.uniq y) (fun y => h.clean y) rfl ?_
      intro t
      cases x <;> simp only [Side.peer] at hk <;> simp [occ, Sys.me, Sys.setCh, upd, Side.peer, hk, kTokens, fm_fb, count_cons'] <;> omega

theorem cinv_step {s : Sys} (h : CInv s) (op : Op) : CInv (step s op) := by
  cases op with
  | open_ x => exact cinv_open h x
  | flush x i heap => exact cinv_flush h x i heap
  | close x i => exact cinv_close h x i
  | deliver x => exact cinv_deliver h x
  | consume x i => exact cinv_consume h x i
  | moved x i => exact cinv_moved h x i

theorem cinv_run (ops : List Op) : ∀ s, CInv s → CInv (run s ops) := by
  induction ops with
  | nil => intro s h; exact h
  | cons op rest ih => intro s h; exact ih _ (cinv_step h op)

end Mux
