import ShmVerif.Model.NetL
import ShmVerif.Proof.Callback
/-! Invariant of the net.Listener adapter model, for every operation sequence. -/
namespace NetL
open List

def isOpen (k : Nat) (c : Conn) : Bool := c.sess == k && !c.closed
def b2n (b : Bool) : Nat := if b then 1 else 0

structure Inv (l : L) : Prop where
  refs : ∀ (k : Nat) (x : Sess), l.sess[k]? = some x → x.refs = b2n x.listed + l.conns.countP (isOpen k)
  zero : ∀ (k : Nat) (x : Sess), l.sess[k]? = some x → x.refs = 0 → x.closed = true
  cover : ∀ (c : Nat) (x : Conn), l.conns[c]? = some x → x.closed = true ∨ c ∈ l.backlog ∨ c ∈ l.handed
  nodup : (l.backlog ++ l.handed).Nodup
  bound : ∀ c ∈ l.backlog ++ l.handed, c < l.conns.length
  csess : ∀ x ∈ l.conns, x.sess < l.sess.length
  shut : l.closed = true → l.backlog = [] ∧ ∀ x ∈ l.sess, x.listed = false

theorem inv_init (cap : Nat) : Inv { cap := cap } := by
  constructor <;> simp

theorem count_none_of_ge (conns : List Conn) (n k : Nat) (h : ∀ x ∈ conns, x.sess < n) (hk : n ≤ k) :
    conns.countP (isOpen k) = 0 := by
  apply List.countP_eq_zero.mpr
  intro x hx
  have := h x hx
  simp [isOpen]; intro h1; omega

theorem inv_newSess {l : L} (h : Inv l) : Inv (newSess l) := by
  obtain ⟨refs, zero, cover, nodup, bound, csess, shut⟩ := h
  unfold newSess
  split
  · rename_i hc
    refine ⟨?_, ?_, cover, nodup, bound, ?_, ?_⟩
    · intro k x hk
      rw [List.getElem?_append] at hk
      split at hk
      · exact refs k x hk
      · rename_i hlt
        have hk0 : k - l.sess.length = 0 := by
          cases hkk : k - l.sess.length with
          | zero => rfl
          | succ n => simp [hkk] at hk
        simp [hk0] at hk; subst hk
        simp [b2n, count_none_of_ge l.conns l.sess.length k csess (by omega)]
    · intro k x hk
      rw [List.getElem?_append] at hk
      split at hk
      · exact zero k x hk
      · cases hkk : k - l.sess.length with
        | zero => simp [hkk] at hk; subst hk; intro _; rfl
        | succ n => simp [hkk] at hk
    · intro x hx; have := csess x hx; simp; omega
    · intro _
      refine ⟨(shut hc).1, ?_⟩
      intro x hx
      rcases List.mem_append.mp hx with h1 | h1
      · exact (shut hc).2 x h1
      · simp at h1; subst h1; rfl
  · rename_i hc
    refine ⟨?_, ?_, cover, nodup, bound, ?_, ?_⟩
    · intro k x hk
      rw [List.getElem?_append] at hk
      split at hk
      · exact refs k x hk
      · cases hkk : k - l.sess.length with
        | zero =>
          simp [hkk] at hk; subst hk
          simp [b2n, count_none_of_ge l.conns l.sess.length k csess (by omega)]
        | succ n => simp [hkk] at hk
    · intro k x hk
      rw [List.getElem?_append] at hk
      split at hk
      · exact zero k x hk
      · cases hkk : k - l.sess.length with
        | zero => simp [hkk] at hk; subst hk; intro h0; simp at h0
        | succ n => simp [hkk] at hk
    · intro x hx; have := csess x hx; simp; omega
    · intro h1; exact absurd h1 hc

theorem mem_set_sess {l : List Sess} {k : Nat} {y : Sess} {x : Sess} (h : x ∈ l.set k y) : x ∈ l ∨ x = y :=
  List.mem_or_eq_of_mem_set h

theorem inv_closeConn {l : L} (h : Inv l) (c : Nat) : Inv (closeConn l c) := by
  unfold closeConn
  split
  · exact h
  · rename_i x hx
    split
    · exact h
    · rename_i hxc
      have hxc' : x.closed = false := by simpa using hxc
      obtain ⟨refs, zero, cover, nodup, bound, csess, shut⟩ := h
      have hk : x.sess < l.sess.length := csess x (List.mem_of_getElem? hx)
      obtain ⟨y, hy⟩ : ∃ y, l.sess[x.sess]? = some y := ⟨l.sess[x.sess], by simp [hk]⟩
      have hcnt : ∀ k, (l.conns.set c { x with closed := true }).countP (isOpen k) + (if x.sess = k then 1 else 0) = l.conns.countP (isOpen k) := by
        intro k
        rw [Callback.countP_split (isOpen k) l.conns c x hx, Callback.countP_set_split (isOpen k) l.conns c x _ hx]
        by_cases hk' : x.sess = k <;> simp [isOpen, hxc', hk']
      have hry := refs x.sess y hy
      have hc1 := hcnt x.sess
      simp at hc1
      unfold done updS
      simp only [hy]
      refine ⟨?_, ?_, ?_, nodup, ?_, ?_, ?_⟩
      · intro k z hz
        show z.refs = b2n z.listed + (l.conns.set c { x with closed := true }).countP (isOpen k)
        by_cases hkk : x.sess = k
        · subst hkk
          simp [List.getElem?_set, hk] at hz; subst hz
          simp only []
          omega
        · simp [List.getElem?_set, hkk] at hz
          have := refs k z hz
          have hc2 := hcnt k
          simp [hkk] at hc2
          omega
      · intro k z hz
        by_cases hkk : x.sess = k
        · subst hkk
          simp [List.getElem?_set, hk] at hz; subst hz
          intro h0; simp only [] at h0 ⊢; simp [h0]
        · simp [List.getElem?_set, hkk] at hz
          exact zero k z hz
      · intro c' z hz
        simp only [List.getElem?_set] at hz
        split at hz
        · rename_i hcc
          split at hz
          · injection hz with hz; subst hz; left; rfl
          · cases hz
        · exact cover c' z hz
      · intro c' hc'; simpa using bound c' hc'
      · intro z hz
        simp only [List.length_set]
        rcases List.mem_or_eq_of_mem_set hz with h1 | h1
        · exact csess z h1
        · subst h1; exact hk
      · intro hcl
        refine ⟨(shut hcl).1, ?_⟩
        intro z hz
        rcases List.mem_or_eq_of_mem_set hz with h1 | h1
        · exact (shut hcl).2 z h1
        · subst h1; exact (shut hcl).2 y (List.mem_of_getElem? hy)

theorem inv_fold_closeConn (cs : List Nat) : ∀ l, Inv l → Inv (cs.foldl closeConn l) := by
  induction cs with
  | nil => intro l h; exact h
  | cons c rest ih => intro l h; exact ih _ (inv_closeConn h c)

/-- updating one session without touching its counter, its listing or its closed flag -/
theorem inv_updS_frame {l : L} (h : Inv l) (k : Nat) (f : Sess → Sess)
    (hf : ∀ x, (f x).refs = x.refs ∧ (f x).listed = x.listed ∧ ((f x).closed = x.closed ∨ (f x).closed = true)) : Inv (updS l k f) := by
  obtain ⟨refs, zero, cover, nodup, bound, csess, shut⟩ := h
  unfold updS
  split
  · exact ⟨refs, zero, cover, nodup, bound, csess, shut⟩
  · rename_i y hy
    have hk : k < l.sess.length := (List.getElem?_eq_some_iff.mp hy).1
    refine ⟨?_, ?_, cover, nodup, bound, ?_, ?_⟩
    · intro k' z hz
      by_cases hkk : k = k'
      · subst hkk
        simp [List.getElem?_set, hk] at hz; subst hz
        rw [(hf y).1, (hf y).2.1]; exact refs k y hy
      · simp [List.getElem?_set, hkk] at hz; exact refs k' z hz
    · intro k' z hz
      by_cases hkk : k = k'
      · subst hkk
        simp [List.getElem?_set, hk] at hz; subst hz
        intro h0; rw [(hf y).1] at h0
        rcases (hf y).2.2 with h1 | h1
        · rw [h1]; exact zero k y hy h0
        · exact h1
      · simp [List.getElem?_set, hkk] at hz; exact zero k' z hz
    · intro x hx; simpa using csess x hx
    · intro hc
      refine ⟨(shut hc).1, ?_⟩
      intro z hz
      rcases List.mem_or_eq_of_mem_set hz with h1 | h1
      · exact (shut hc).2 z h1
      · subst h1; rw [(hf y).2.1]; exact (shut hc).2 y (List.mem_of_getElem? hy)

theorem inv_stream {l : L} (h : Inv l) (k : Nat) : Inv (stream l k) := by
  unfold stream
  split
  · exact h
  · rename_i x hx
    split
    · exact h
    · split
      · exact inv_updS_frame h k _ (fun y => ⟨rfl, rfl, Or.inl rfl⟩)
      · rename_i _ hncl
        obtain ⟨refs, zero, cover, nodup, bound, csess, shut⟩ := h
        have hk : k < l.sess.length := (List.getElem?_eq_some_iff.mp hx).1
        simp only [updS, hx]
        have hcnt : ∀ k', (l.conns ++ [({ sess := k, sid := x.nextSid } : Conn)]).countP (isOpen k') = l.conns.countP (isOpen k') + (if k = k' then 1 else 0) := by
          intro k'
          simp only [List.countP_append, List.countP_cons, List.countP_nil]
          by_cases hkk : k = k' <;> simp [isOpen, hkk]
        refine ⟨?_, ?_, ?_, ?_, ?_, ?_, ?_⟩
        · intro k' z hz
          show z.refs = b2n z.listed + (l.conns ++ [({ sess := k, sid := x.nextSid } : Conn)]).countP (isOpen k')
          rw [hcnt]
          by_cases hkk : k = k'
          · subst hkk
            simp [List.getElem?_set, hk] at hz; subst hz
            have := refs k x hx
            simp only [if_true]; omega
          · simp [List.getElem?_set, hkk] at hz
            have := refs k' z hz; simp [hkk]; exact this
        · intro k' z hz
          by_cases hkk : k = k'
          · subst hkk
            simp [List.getElem?_set, hk] at hz; subst hz
            intro h0; simp at h0
          · simp [List.getElem?_set, hkk] at hz; exact zero k' z hz
        · intro c z hz
          show z.closed = true ∨ c ∈ l.backlog ++ [l.conns.length] ∨ c ∈ l.handed
          rw [List.getElem?_append] at hz
          split at hz
          · rcases cover c z hz with h1 | h1 | h1
            · exact Or.inl h1
            · exact Or.inr (Or.inl (List.mem_append_left _ h1))
            · exact Or.inr (Or.inr h1)
          · rename_i hlt
            cases hcc : c - l.conns.length with
            | zero =>
              have : c = l.conns.length := by omega
              right; left; simp [this]
            | succ n => simp [hcc] at hz
        · show ((l.backlog ++ [l.conns.length]) ++ l.handed).Nodup
          have hnew : l.conns.length ∉ l.backlog ++ l.handed := fun hm => by have := bound _ hm; omega
          rw [List.append_assoc, List.nodup_append] at *
          simp only [List.mem_append, not_or] at hnew
          refine ⟨nodup.1, ?_, ?_⟩
          · simp only [List.singleton_append, List.nodup_cons]; exact ⟨hnew.2, nodup.2.1⟩
          · intro a ha b hb
            simp at hb
            rcases hb with hb | hb
            · subst hb; intro hab; exact hnew.1 (hab ▸ ha)
            · exact nodup.2.2 a ha b hb
        · intro c hc
          show c < (l.conns ++ [({ sess := k, sid := x.nextSid } : Conn)]).length
          simp only [List.length_append, List.length_cons, List.length_nil]
          have hc' : c ∈ (l.backlog ++ [l.conns.length]) ++ l.handed := hc
          simp only [List.mem_append, List.mem_cons, List.mem_nil_iff, or_false] at hc'
          rcases hc' with (h1 | h1) | h1
          · have := bound c (List.mem_append_left _ h1); omega
          · omega
          · have := bound c (List.mem_append_right _ h1); omega
        · intro z hz
          simp only [List.length_set]
          rcases List.mem_append.mp hz with h1 | h1
          · exact csess z h1
          · simp at h1; subst h1; exact hk
        · intro hc; exact absurd hc hncl

theorem inv_accept {l : L} (h : Inv l) : Inv (accept l).1 := by
  unfold accept
  split
  · rename_i c rest hb
    obtain ⟨refs, zero, cover, nodup, bound, csess, shut⟩ := h
    refine ⟨refs, zero, ?_, ?_, ?_, csess, ?_⟩
    · intro c' z hz
      rcases cover c' z hz with h1 | h1 | h1
      · exact Or.inl h1
      · rw [hb] at h1
        rcases List.mem_cons.mp h1 with h2 | h2
        · right; right; simp [h2]
        · exact Or.inr (Or.inl h2)
      · right; right; exact List.mem_append_left _ h1
    · rw [hb] at nodup
      have : (rest ++ (l.handed ++ [c])).Perm ((c :: rest) ++ l.handed) := by
        rw [← List.append_assoc]
        exact (List.perm_append_singleton c (rest ++ l.handed)).trans (by simp)
      exact (this.nodup_iff).mpr nodup
    · intro c' hc'
      apply bound c'
      rw [hb]
      simp only [List.mem_append, List.mem_cons, List.mem_nil_iff, or_false] at hc' ⊢
      rcases hc' with h1 | h1 | h1
      · exact Or.inl (Or.inr h1)
      · exact Or.inr h1
      · exact Or.inl (Or.inl h1)
    · intro hc; have := (shut hc).1; rw [hb] at this; cases this
  · exact h

/-- updating one session's counter together with its listing -/
theorem inv_updS_gen {l : L} (h : Inv l) (k : Nat) (f : Sess → Sess)
    (hf : ∀ x, (x.listed = true → 1 ≤ x.refs) →
      (f x).refs + b2n x.listed = x.refs + b2n (f x).listed ∧ ((f x).listed = true → x.listed = true) ∧
      ((f x).refs = 0 → (f x).closed = true)) : Inv (updS l k f) := by
  obtain ⟨refs, zero, cover, nodup, bound, csess, shut⟩ := h
  unfold updS
  split
  · exact ⟨refs, zero, cover, nodup, bound, csess, shut⟩
  · rename_i y hy
    have hk : k < l.sess.length := (List.getElem?_eq_some_iff.mp hy).1
    have hry := refs k y hy
    have hge : y.listed = true → 1 ≤ y.refs := by intro hl; simp [hl, b2n] at hry; omega
    obtain ⟨f1, f2, f3⟩ := hf y hge
    refine ⟨?_, ?_, cover, nodup, bound, ?_, ?_⟩
    · intro k' z hz
      show z.refs = b2n z.listed + l.conns.countP (isOpen k')
      by_cases hkk : k = k'
      · subst hkk
        simp [List.getElem?_set, hk] at hz; subst hz
        omega
      · simp [List.getElem?_set, hkk] at hz; exact refs k' z hz
    · intro k' z hz
      by_cases hkk : k = k'
      · subst hkk
        simp [List.getElem?_set, hk] at hz; subst hz
        exact f3
      · simp [List.getElem?_set, hkk] at hz; exact zero k' z hz
    · intro x hx; simpa using csess x hx
    · intro hc
      refine ⟨(shut hc).1, ?_⟩
      intro z hz
      rcases List.mem_or_eq_of_mem_set hz with h1 | h1
      · exact (shut hc).2 z h1
      · subst h1
        cases hl : (f y).listed with
        | false => rfl
        | true => have := (shut hc).2 y (List.mem_of_getElem? hy); rw [f2 hl] at this; cases this

theorem unlist_spec (x : Sess) (hge : x.listed = true → 1 ≤ x.refs) :
    (unlist x).refs + b2n x.listed = x.refs + b2n (unlist x).listed ∧ (unlist x).listed = false ∧
    ((unlist x).refs = 0 → (unlist x).closed = true ∨ x.listed = false) := by
  unfold unlist
  cases hl : x.listed with
  | false => simp [b2n, hl]
  | true =>
    have := hge hl
    simp [b2n]
    refine ⟨by omega, ?_⟩
    intro h0; right; exact h0

theorem inv_sessGone {l : L} (h : Inv l) (k : Nat) : Inv (sessGone l k) := by
  unfold sessGone
  split
  · exact h
  · rename_i x hx
    split
    · exact inv_updS_frame h k _ (fun y => ⟨rfl, rfl, Or.inr rfl⟩)
    · apply inv_updS_gen h k
      intro y hge
      obtain ⟨u1, u2, _⟩ := unlist_spec y hge
      refine ⟨u1, ?_, fun _ => rfl⟩
      intro hl; rw [u2] at hl; cases hl

theorem closed_after_fold (cs : List Nat) : ∀ (l : L) (c : Nat) (x : Conn), c ∈ cs →
    (cs.foldl closeConn l).conns[c]? = some x → x.closed = true := by
  -- a conn once closed stays closed; closeConn c closes c
  have stays : ∀ (l : L) (c c' : Nat) (x : Conn), (closeConn l c').conns[c]? = some x →
      (∃ y, l.conns[c]? = some y ∧ (y.closed = true → x.closed = true) ∧ (c = c' → x.closed = true)) := by
    intro l c c' x hx
    unfold closeConn at hx
    split at hx
    · rename_i hn
      refine ⟨x, hx, id, ?_⟩
      intro hcc; subst hcc; rw [hn] at hx; cases hx
    · rename_i y hy
      split at hx
      · rename_i hyc
        refine ⟨x, hx, id, ?_⟩
        intro hcc; subst hcc; rw [hy] at hx; injection hx with hx; subst hx; exact hyc
      · have hx' : (l.conns.set c' { y with closed := true })[c]? = some x := by
          unfold done updS at hx
          split at hx <;> exact hx
        by_cases hcc : c' = c
        · subst hcc
          have hlt : c' < l.conns.length := (List.getElem?_eq_some_iff.mp hy).1
          simp [List.getElem?_set, hlt] at hx'; subst hx'
          exact ⟨y, hy, fun _ => rfl, fun _ => rfl⟩
        · simp [List.getElem?_set, hcc] at hx'
          exact ⟨x, hx', id, fun h => absurd h.symm hcc⟩
  induction cs with
  | nil => intro l c x hc; simp at hc
  | cons c' rest ih =>
    intro l c x hc hx
    simp only [List.foldl_cons] at hx
    rcases List.mem_cons.mp hc with h1 | h1
    · -- c is closed by the first step, and stays closed
      have keep : ∀ (cs : List Nat) (l : L) (x : Conn), (cs.foldl closeConn l).conns[c]? = some x →
          ∃ y, l.conns[c]? = some y ∧ (y.closed = true → x.closed = true) := by
        intro cs
        induction cs with
        | nil => intro l x hx; exact ⟨x, hx, id⟩
        | cons d ds ihd =>
          intro l x hx
          simp only [List.foldl_cons] at hx
          obtain ⟨y, hy, hyx⟩ := ihd _ x hx
          obtain ⟨z, hz, hzy, _⟩ := stays l c d y hy
          exact ⟨z, hz, fun h => hyx (hzy h)⟩
      obtain ⟨y, hy, hyx⟩ := keep rest _ x hx
      obtain ⟨z, hz, _, hcl⟩ := stays l c c' y hy
      exact hyx (hcl h1)
    · exact ih _ c x h1 hx

theorem fold_closeConn_fields (cs : List Nat) : ∀ l : L,
    (cs.foldl closeConn l).backlog = l.backlog ∧ (cs.foldl closeConn l).handed = l.handed ∧
    (cs.foldl closeConn l).closed = l.closed := by
  have one : ∀ (l : L) (c : Nat), (closeConn l c).backlog = l.backlog ∧ (closeConn l c).handed = l.handed ∧ (closeConn l c).closed = l.closed := by
    intro l c
    unfold closeConn
    split
    · exact ⟨rfl, rfl, rfl⟩
    · split
      · exact ⟨rfl, rfl, rfl⟩
      · unfold done updS; split <;> exact ⟨rfl, rfl, rfl⟩
  induction cs with
  | nil => intro l; exact ⟨rfl, rfl, rfl⟩
  | cons c rest ih =>
    intro l
    simp only [List.foldl_cons]
    obtain ⟨a1, a2, a3⟩ := ih (closeConn l c)
    obtain ⟨b1, b2, b3⟩ := one l c
    exact ⟨a1.trans b1, a2.trans b2, a3.trans b3⟩

theorem inv_drain {l : L} (h : Inv l) : Inv (drain l) := by
  unfold drain
  have hf := inv_fold_closeConn l.backlog l h
  obtain ⟨f1, f2, f3⟩ := fold_closeConn_fields l.backlog l
  obtain ⟨refs, zero, cover, nodup, bound, csess, shut⟩ := hf
  refine ⟨refs, zero, ?_, ?_, ?_, csess, ?_⟩
  · intro c x hx
    rcases cover c x hx with h1 | h1 | h1
    · exact Or.inl h1
    · rw [f1] at h1; exact Or.inl (closed_after_fold l.backlog l c x h1 hx)
    · exact Or.inr (Or.inr h1)
  · rw [f1] at nodup; simp only [List.nil_append]; exact (List.nodup_append.mp nodup).2.1
  · intro c hc; simp only [List.nil_append] at hc; exact bound c (List.mem_append_right _ hc)
  · intro hc; exact ⟨rfl, (shut hc).2⟩

theorem inv_close {l : L} (h : Inv l) : Inv (close l) := by
  unfold close
  have hd := inv_drain h
  have hb : (drain l).backlog = [] := by unfold drain; rfl
  generalize drain l = l1 at hd hb
  obtain ⟨refs, zero, cover, nodup, bound, csess, shut⟩ := hd
  refine ⟨?_, ?_, cover, nodup, bound, ?_, ?_⟩
  · intro k z hz
    simp only [List.getElem?_map] at hz
    cases hy : l1.sess[k]? with
    | none => simp [hy] at hz
    | some y =>
      simp [hy] at hz; subst hz
      have hry := refs k y hy
      have hge : y.listed = true → 1 ≤ y.refs := by intro hl; simp [hl, b2n] at hry; omega
      have := unlist_spec y hge
      show (unlist y).refs = b2n (unlist y).listed + l1.conns.countP (isOpen k)
      omega
  · intro k z hz
    simp only [List.getElem?_map] at hz
    cases hy : l1.sess[k]? with
    | none => simp [hy] at hz
    | some y =>
      simp [hy] at hz; subst hz
      have hry := refs k y hy
      have hge : y.listed = true → 1 ≤ y.refs := by intro hl; simp [hl, b2n] at hry; omega
      intro h0
      rcases (unlist_spec y hge).2.2 h0 with h1 | h1
      · exact h1
      · have : unlist y = y := by simp [unlist, h1]
        rw [this] at h0 ⊢; exact zero k y hy h0
  · intro x hx; simpa using csess x hx
  · intro _
    refine ⟨hb, ?_⟩
    intro z hz
    obtain ⟨y, _, rfl⟩ := List.mem_map.mp hz
    by_cases hl : y.listed = true <;> simp [unlist, hl]

theorem inv_step {l : L} (h : Inv l) (op : Op) : Inv (step l op) := by
  cases op with
  | newSess => exact inv_newSess h
  | stream k => exact inv_stream h k
  | sessGone k => exact inv_sessGone h k
  | accept => exact inv_accept h
  | closeConn c => exact inv_closeConn h c
  | close => exact inv_close h

theorem inv_run (ops : List Op) : ∀ l, Inv l → Inv (run l ops) := by
  induction ops with
  | nil => intro l h; exact h
  | cons op rest ih => intro l h; exact ih _ (inv_step h op)

end NetL
