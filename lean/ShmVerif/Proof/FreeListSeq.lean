import ShmVerif.Proof.FreeListGeom
/-!
  Sequential-atomic histories of the access-granular free-list model: each pop/push runs to completion before the
  next operation (of any thread) starts.  Unbounded: any number of slots, threads, operations.

  `Rep s free`: the abstract free list `free` is exactly the chain from `head` to `tail`; every slot is either in
  `free` or owned by exactly one thread.
-/
namespace FreeListC

def gs (sl : List Slot) (i : Nat) : Slot := sl.getD i default

theorem gs_modify (sl : List Slot) (i j : Nat) (f : Slot → Slot) :
    gs (sl.modify i f) j = if i = j ∧ j < sl.length then f (gs sl j) else gs sl j := by
  unfold gs
  simp only [List.getD_eq_getElem?_getD, List.getElem?_modify]
  by_cases h : i = j
  · subst h
    by_cases hl : i < sl.length
    · simp [hl]
    · have : sl[i]? = none := by simp; omega
      simp [this, hl]
  · simp [h]

def Chain (sl : List Slot) : List Nat → Prop
  | [] => False
  | [a] => (gs sl a).hasNext = false
  | a :: b :: r => (gs sl a).hasNext = true ∧ (gs sl a).next = b ∧ Chain sl (b :: r)

theorem chain_modify_notin (sl : List Slot) (i : Nat) (f : Slot → Slot) (l : List Nat) (hi : i ∉ l) :
    Chain (sl.modify i f) l ↔ Chain sl l := by
  induction l with
  | nil => simp [Chain]
  | cons a r ih =>
    have ha : i ≠ a := fun h => hi (h ▸ List.mem_cons_self)
    have hr : i ∉ r := fun h => hi (List.mem_cons_of_mem _ h)
    cases r with
    | nil => simp [Chain, gs_modify, ha]
    | cons b r' =>
      simp only [Chain, gs_modify, ha, false_and, if_false]
      rw [ih hr]

/-- appending the recycled slot `o` behind the old tail `t` -/
theorem chain_snoc (sl : List Slot) (l : List Nat) (t o : Nat) (hc : Chain sl l) (hl : l.getLast? = some t)
    (ho : o ∉ l) (hnd : l.Nodup) (hof : (gs sl o).hasNext = false) (ht : t < sl.length) :
    Chain ((sl.modify t (fun x => { x with next := o })).modify t (fun x => { x with hasNext := true })) (l ++ [o]) := by
  induction l with
  | nil => simp at hl
  | cons a r ih =>
    cases r with
    | nil =>
      simp only [List.getLast?_singleton, Option.some.injEq] at hl
      subst hl
      have hoa : a ≠ o := fun h => ho (h ▸ List.mem_cons_self)
      simp only [List.cons_append, List.nil_append, Chain, gs_modify, List.length_modify, ht, and_self, if_true, true_and]
      simp [hoa, hof]
    | cons b r' =>
      obtain ⟨h1, h2, h3⟩ := hc
      have hl' : (b :: r').getLast? = some t := by simpa [List.getLast?_cons_cons] using hl
      have hat : t ≠ a := by
        intro h
        have : t ∈ b :: r' := List.mem_of_getLast? hl'
        rw [h] at this
        exact (List.nodup_cons.mp hnd).1 this
      have ih' := ih h3 hl' (fun h => ho (List.mem_cons_of_mem _ h)) (List.nodup_cons.mp hnd).2
      simp only [List.cons_append, Chain, gs_modify, hat, false_and, if_false]
      exact ⟨h1, h2, ih'⟩

theorem chain_tail {sl : List Slot} {a b : Nat} {r : List Nat} (h : Chain sl (a :: b :: r)) : Chain sl (b :: r) := h.2.2

/-- the walk from the head of a chain is the chain -/
theorem walk_chain (s : State) (l : List Nat) (a : Nat) (f : Nat) (hc : Chain s.slots (a :: l)) (hf : l.length < f) :
    walk f s a = a :: l := by
  induction l generalizing a f with
  | nil =>
    cases f with
    | zero => simp at hf
    | succ f =>
      have h0 : (gs s.slots a).hasNext = false := hc
      have : (s.slots.getD a default).hasNext = false := h0
      simp only [walk, getSlot, this]; simp
  | cons b r ih =>
    cases f with
    | zero => simp at hf
    | succ f =>
      obtain ⟨h1, h2, h3⟩ := hc
      unfold gs at h1 h2
      simp only [walk, getSlot, h1, if_true, h2]
      rw [ih b f h3 (by simp at hf; omega)]

/-- slots a thread owns at an operation boundary (a thread about to push has already taken `o` out of `held`) -/
def owned (th : Th) : List Nat := th.held ++ (if th.pc = .uReset then [th.o] else [])

def AtBoundary (th : Th) : Prop := th.pc = .idle ∨ th.pc = .pLdHead ∨ th.pc = .uReset

structure Rep (s : State) (free : List Nat) : Prop where
  chain : Chain s.slots free
  head : free.head? = some s.head
  tail : free.getLast? = some s.tail
  size : s.size = free.length
  nodup : (free ++ s.ths.flatMap owned).Nodup
  bound : ∀ i ∈ free ++ s.ths.flatMap owned, i < s.slots.length
  total : (free ++ s.ths.flatMap owned).length = s.slots.length
  complete : ∀ i, i < s.slots.length → i ∈ free ++ s.ths.flatMap owned
  boundary : ∀ th ∈ s.ths, AtBoundary th

/-- apply `stepTh` k times to a (shared state, thread) pair -/
def iterTh : Nat → State → Th → State × Th
  | 0, s, th => (s, th)
  | k + 1, s, th => let r := stepTh s th; iterTh k r.1 r.2.1

/-- successful pop, run alone: 8 accesses -/
theorem pop_ok (s : State) (th : Th) (a b : Nat) (hpc : th.pc = .pLdHead) (hh : s.head = a)
    (hsz : 2 ≤ s.size) (hn : (gs s.slots a).hasNext = true) (hb : (gs s.slots a).next = b) :
    iterTh 8 s th =
      ({ s with head := b, size := s.size - 1, counter := s.counter + 1, hver := s.hver + 1,
                slots := (s.slots.modify a (fun x => { x with hasNext := false, inUsed := false })).modify a
                            (fun x => { x with inUsed := true }) },
       finishOp { th with oldHead := a, lver := s.hver, retry := 0, nxt := b, pc := .pCnt, held := th.held ++ [a] } (.got a)) := by
  have hn' : (s.slots[a]?.getD default).hasNext = true := by simpa [gs] using hn
  have hb' : (s.slots[a]?.getD default).next = b := by simpa [gs] using hb
  have hsz' : ¬ (s.size - 1 ≤ 0) := by omega
  simp [iterTh, stepTh, hpc, hh, hsz', getSlot, hn', hb', clearFlag, setInUsed]

/-- failing pop (free list down to its last slot), run alone: the shared words are restored -/
theorem pop_fail (s : State) (th : Th) (hpc : th.pc = .pLdHead) (hsz : s.size ≤ 1) :
    iterTh 3 s th = (s, finishOp { th with oldHead := s.head, lver := s.hver, pc := .pIncFail } .nomore) := by
  have hsz' : s.size - 1 ≤ 0 := by omega
  simp [iterTh, stepTh, hpc, hsz']

/-- push, run alone: 7 accesses -/
theorem push_ok (s : State) (th : Th) (hpc : th.pc = .uReset) :
    iterTh 7 s th =
      ({ s with tail := th.o, size := s.size + 1, counter := s.counter - 1,
                slots := (((s.slots.modify th.o (fun x => { x with hasNext := false, inUsed := false })).modify s.tail
                            (fun x => { x with next := th.o })).modify s.tail (fun x => { x with hasNext := true })) },
       finishOp { th with ot := s.tail, pc := .uDecCnt } (.pushed th.o)) := by
  simp [iterTh, stepTh, hpc, clearFlag, setNext, setHasNext]


theorem startNextAux_res_len (ops : List Op) (t : Th) : t.res.length ≤ (startNextAux t ops).res.length := by
  induction ops generalizing t with
  | nil => simp [startNextAux]
  | cons op r ih =>
    cases op with
    | pop => simp [startNextAux]
    | push k =>
      simp only [startNextAux]
      split
      · have := ih { t with res := t.res ++ [.skipped] }
        simp at this; omega
      · simp

theorem finishOp_res_len (t : Th) (r : Res) : t.res.length < (finishOp t r).res.length := by
  have := startNextAux_res_len t.prog { t with res := t.res ++ [r] }
  simp only [finishOp, startNext]
  simp at this; omega

theorem opRun_pop_ok (s : State) (t : Nat) (th : Th) (a b : Nat) (hth : s.ths[t]? = some th)
    (hpc : th.pc = .pLdHead) (hh : s.head = a)
    (hsz : 2 ≤ s.size) (hn : (gs s.slots a).hasNext = true) (hb : (gs s.slots a).next = b) :
    opRun 16 s t =
      { s with head := b, size := s.size - 1, counter := s.counter + 1, hver := s.hver + 1,
               slots := (s.slots.modify a (fun x => { x with hasNext := false, inUsed := false })).modify a
                            (fun x => { x with inUsed := true }),
               ths := s.ths.set t (finishOp { th with oldHead := a, lver := s.hver, retry := 0, nxt := b, pc := .pCnt, held := th.held ++ [a] } (.got a)) } := by
  have hn' : (s.slots[a]?.getD default).hasNext = true := by simpa [gs] using hn
  have hb' : (s.slots[a]?.getD default).next = b := by simpa [gs] using hb
  have hsz' : ¬ (s.size - 1 ≤ 0) := by omega
  have ht : t < s.ths.length := by
    rcases Nat.lt_or_ge t s.ths.length with h | h
    · exact h
    · simp [List.getElem?_eq_none h] at hth
  have hfin := finishOp_res_len { th with oldHead := a, lver := s.hver, retry := 0, nxt := b, pc := .pCnt, held := th.held ++ [a] } (.got a)
  simp only at hfin
  have hget : s.ths[t] = th := by simpa [List.getElem?_eq_getElem ht] using hth
  subst hget
  simp [opRun, step, stepTh, hpc, hh, hsz', getSlot, hn', hb', clearFlag, setInUsed, ht, hfin]

end FreeListC

namespace FreeListC

theorem opRun_pop_fail (s : State) (t : Nat) (th : Th) (hth : s.ths[t]? = some th)
    (hpc : th.pc = .pLdHead) (hsz : s.size ≤ 1) :
    opRun 16 s t =
      { s with ths := s.ths.set t (finishOp { th with oldHead := s.head, lver := s.hver, pc := .pIncFail } .nomore) } := by
  have hsz' : s.size - 1 ≤ 0 := by omega
  have ht : t < s.ths.length := by
    rcases Nat.lt_or_ge t s.ths.length with h | h
    · exact h
    · simp [List.getElem?_eq_none h] at hth
  have hfin := finishOp_res_len { th with oldHead := s.head, lver := s.hver, pc := .pIncFail } .nomore
  simp only at hfin
  have hget : s.ths[t] = th := by simpa [List.getElem?_eq_getElem ht] using hth
  subst hget
  simp [opRun, step, stepTh, hpc, hsz', ht, hfin]

theorem opRun_push (s : State) (t : Nat) (th : Th) (hth : s.ths[t]? = some th) (hpc : th.pc = .uReset) :
    opRun 16 s t =
      { s with tail := th.o, size := s.size + 1, counter := s.counter - 1,
               slots := (((s.slots.modify th.o (fun x => { x with hasNext := false, inUsed := false })).modify s.tail
                            (fun x => { x with next := th.o })).modify s.tail (fun x => { x with hasNext := true })),
               ths := s.ths.set t (finishOp { th with ot := s.tail, pc := .uDecCnt } (.pushed th.o)) } := by
  have ht : t < s.ths.length := by
    rcases Nat.lt_or_ge t s.ths.length with h | h
    · exact h
    · simp [List.getElem?_eq_none h] at hth
  have hfin := finishOp_res_len { th with ot := s.tail, pc := .uDecCnt } (.pushed th.o)
  simp only at hfin
  have hget : s.ths[t] = th := by simpa [List.getElem?_eq_getElem ht] using hth
  subst hget
  simp [opRun, step, stepTh, hpc, ht, hfin, clearFlag, setNext, setHasNext]

theorem opRun_idle (s : State) (t : Nat) (th : Th) (hth : s.ths[t]? = some th) (hpc : th.pc = .idle) :
    opRun 16 s t = s := by
  simp [opRun, hth, hpc]

theorem opRun_none (s : State) (t : Nat) (hth : s.ths[t]? = none) : opRun 16 s t = s := by
  simp [opRun, hth]

end FreeListC

namespace FreeListC
open List

theorem flatMap_set_perm {α β : Type} (f : α → List β) (l : List α) (t : Nat) (x : α) (ht : t < l.length) :
    ((l.set t x).flatMap f ++ f l[t]).Perm (l.flatMap f ++ f x) := by
  induction l generalizing t with
  | nil => simp at ht
  | cons a r ih =>
    cases t with
    | zero =>
      simp only [set_cons_zero, flatMap_cons, getElem_cons_zero]
      -- f x ++ R ++ f a ~ f a ++ R ++ f x
      calc f x ++ r.flatMap f ++ f a ~ f a ++ (f x ++ r.flatMap f) := perm_append_comm
        _ ~ f a ++ (r.flatMap f ++ f x) := Perm.append_left _ perm_append_comm
        _ = f a ++ r.flatMap f ++ f x := by simp
    | succ t =>
      have ht' : t < r.length := by simpa using ht
      simp only [set_cons_succ, flatMap_cons, getElem_cons_succ]
      have := ih t ht'
      calc f a ++ (r.set t x).flatMap f ++ f r[t] = f a ++ ((r.set t x).flatMap f ++ f r[t]) := by simp
        _ ~ f a ++ (r.flatMap f ++ f x) := Perm.append_left _ this
        _ = f a ++ r.flatMap f ++ f x := by simp

theorem cons_eraseIdx_perm {α : Type} (l : List α) (k : Nat) (hk : k < l.length) :
    (l[k] :: l.eraseIdx k).Perm l := by
  induction l generalizing k with
  | nil => simp at hk
  | cons a r ih =>
    cases k with
    | zero => simp
    | succ k =>
      have hk' : k < r.length := by simpa using hk
      simp only [getElem_cons_succ, eraseIdx_cons_succ]
      exact (Perm.swap a r[k] (r.eraseIdx k)).trans (Perm.cons a (ih k hk'))

/-- starting the next operation only moves a slot from `held` to `o`: ownership is preserved up to permutation -/
theorem owned_startNextAux (ops : List Op) (t : Th) : (owned (startNextAux t ops)).Perm t.held := by
  induction ops generalizing t with
  | nil => simp [startNextAux, owned]
  | cons op r ih =>
    cases op with
    | pop => simp [startNextAux, owned]
    | push k =>
      simp only [startNextAux]
      split
      · exact ih _
      · rename_i o ho
        simp only [owned, if_true]
        have hk : k < t.held.length := by
          rcases Nat.lt_or_ge k t.held.length with h | h
          · exact h
          · simp [getElem?_eq_none h] at ho
        have ho' : t.held[k] = o := by simpa [getElem?_eq_getElem hk] using ho
        have := cons_eraseIdx_perm t.held k hk
        rw [ho'] at this
        exact (perm_append_comm.trans this)

theorem owned_finishOp (t : Th) (r : Res) : (owned (finishOp t r)).Perm t.held :=
  owned_startNextAux _ _

theorem boundary_startNextAux (ops : List Op) (t : Th) : AtBoundary (startNextAux t ops) := by
  induction ops generalizing t with
  | nil => simp [startNextAux, AtBoundary]
  | cons op r ih =>
    cases op with
    | pop => simp [startNextAux, AtBoundary]
    | push k =>
      simp only [startNextAux]
      split
      · exact ih _
      · simp [AtBoundary]

/-- replacing thread `t` (which owned `owned th`) by one that owns `newOwned`: the multiset of all owned slots -/
theorem flatMap_owned_set (l : List Th) (t : Nat) (th x : Th) (ht : l[t]? = some th) :
    ((l.set t x).flatMap owned ++ owned th).Perm (l.flatMap owned ++ owned x) := by
  have hlt : t < l.length := by
    rcases Nat.lt_or_ge t l.length with h | h
    · exact h
    · simp [getElem?_eq_none h] at ht
  have hget : l[t] = th := by simpa [getElem?_eq_getElem hlt] using ht
  rw [← hget]
  exact flatMap_set_perm owned l t x hlt

end FreeListC

namespace FreeListC
open List

theorem rep_of_perm (s s' : State) (free free' : List Nat)
    (h : Rep s free)
    (hlen : s'.slots.length = s.slots.length)
    (hchain : Chain s'.slots free') (hhead : free'.head? = some s'.head) (htail : free'.getLast? = some s'.tail)
    (hsize : s'.size = free'.length)
    (hperm : (free' ++ s'.ths.flatMap owned).Perm (free ++ s.ths.flatMap owned))
    (hb : ∀ th ∈ s'.ths, AtBoundary th) : Rep s' free' := by
  refine ⟨hchain, hhead, htail, hsize, (hperm.nodup_iff).mpr h.nodup, ?_, ?_, ?_, hb⟩
  · intro i hi; rw [hlen]; exact h.bound i ((hperm.mem_iff).mp hi)
  · rw [hperm.length_eq, hlen]; exact h.total
  · intro i hi; rw [hlen] at hi; exact (hperm.mem_iff).mpr (h.complete i hi)

theorem boundary_set (l : List Th) (t : Nat) (x : Th) (hl : ∀ th ∈ l, AtBoundary th) (hx : AtBoundary x) :
    ∀ th ∈ l.set t x, AtBoundary th := by
  intro th hth
  rcases mem_or_eq_of_mem_set hth with h | rfl
  · exact hl th h
  · exact hx

theorem opRun_rep (s : State) (t : Nat) (free : List Nat) (h : Rep s free) : ∃ free', Rep (opRun 16 s t) free' := by
  cases hth : s.ths[t]? with
  | none => exact ⟨free, by rw [opRun_none s t hth]; exact h⟩
  | some th =>
    have hmem : th ∈ s.ths := mem_of_getElem? hth
    rcases h.boundary th hmem with hpc | hpc | hpc
    · exact ⟨free, by rw [opRun_idle s t th hth hpc]; exact h⟩
    · -- pop
      have hown : owned th = th.held := by simp [owned, hpc]
      cases hf : free with
      | nil => have := h.chain; simp [hf, Chain] at this
      | cons a rest =>
        have ha : s.head = a := by have := h.head; simpa [hf] using this.symm
        cases hr : rest with
        | nil =>
          -- only the last slot is left: the pop fails and restores every shared word
          have hsz : s.size ≤ 1 := by have := h.size; simp [hf, hr] at this; omega
          refine ⟨free, ?_⟩
          rw [opRun_pop_fail s t th hth hpc hsz]
          have hx := owned_finishOp { th with oldHead := s.head, lver := s.hver, pc := .pIncFail } .nomore
          simp only at hx
          have hp := flatMap_owned_set s.ths t th (finishOp { th with oldHead := s.head, lver := s.hver, pc := .pIncFail } .nomore) hth
          rw [hown] at hp
          have hp2 : (flatMap owned (s.ths.set t (finishOp { th with oldHead := s.head, lver := s.hver, pc := .pIncFail } .nomore)) ++ th.held).Perm
                      (flatMap owned s.ths ++ th.held) := hp.trans (Perm.append_left _ hx)
          have hp3 := (perm_append_right_iff _).mp hp2
          refine rep_of_perm s _ free free h rfl h.chain h.head h.tail h.size (Perm.append_left _ hp3) ?_
          exact boundary_set _ _ _ h.boundary (boundary_startNextAux _ _)
        | cons b r' =>
          have hc := h.chain
          rw [hf, hr] at hc
          obtain ⟨hn, hb, hc'⟩ := hc
          have hsz : 2 ≤ s.size := by have := h.size; simp [hf, hr] at this; omega
          refine ⟨b :: r', ?_⟩
          rw [opRun_pop_ok s t th a b hth hpc ha hsz hn hb]
          have hnd := h.nodup
          rw [hf, hr] at hnd
          have hnotin : a ∉ b :: r' := by
            have := (nodup_append.mp hnd).1
            exact (nodup_cons.mp this).1
          have hx := owned_finishOp { th with oldHead := a, lver := s.hver, retry := 0, nxt := b, pc := .pCnt, held := th.held ++ [a] } (.got a)
          simp only at hx
          have hp := flatMap_owned_set s.ths t th (finishOp { th with oldHead := a, lver := s.hver, retry := 0, nxt := b, pc := .pCnt, held := th.held ++ [a] } (.got a)) hth
          rw [hown] at hp
          have hp2 := hp.trans (Perm.append_left _ hx)
          -- A' ++ held ~ A ++ (held ++ [a])  ⟹  A' ~ A ++ [a]
          have hp3 : (flatMap owned (s.ths.set t (finishOp { th with oldHead := a, lver := s.hver, retry := 0, nxt := b, pc := .pCnt, held := th.held ++ [a] } (.got a))) ++ th.held).Perm
                      ((flatMap owned s.ths ++ [a]) ++ th.held) := by
            refine hp2.trans ?_
            rw [append_assoc]
            exact Perm.append_left _ perm_append_comm
          have hp4 := (perm_append_right_iff _).mp hp3
          refine rep_of_perm s _ free (b :: r') h (by simp) ?_ (by simp) ?_ ?_ ?_ ?_
          · simp only
            rw [chain_modify_notin _ _ _ _ hnotin, chain_modify_notin _ _ _ _ hnotin]
            exact hc'
          · have := h.tail; rw [hf, hr] at this; simpa [getLast?_cons_cons] using this
          · have := h.size; simp [hf, hr] at this; simp; omega
          · simp only
            rw [hf, hr]
            calc (b :: r') ++ flatMap owned _ ~ (b :: r') ++ (flatMap owned s.ths ++ [a]) := Perm.append_left _ hp4
              _ ~ (b :: r') ++ ([a] ++ flatMap owned s.ths) := Perm.append_left _ perm_append_comm
              _ ~ ([a] ++ (b :: r')) ++ flatMap owned s.ths := by
                  rw [← append_assoc]; exact Perm.append_right _ perm_append_comm
              _ = a :: b :: r' ++ flatMap owned s.ths := by simp
          · exact boundary_set _ _ _ h.boundary (boundary_startNextAux _ _)
    · -- push
      have hown : owned th = th.held ++ [th.o] := by simp [owned, hpc]
      refine ⟨free ++ [th.o], ?_⟩
      rw [opRun_push s t th hth hpc]
      have hoA : th.o ∈ flatMap owned s.ths := by
        rw [mem_flatMap]; exact ⟨th, hmem, by rw [hown]; simp⟩
      have hnd := h.nodup
      have hnotin : th.o ∉ free := by
        intro hin
        exact (nodup_append.mp hnd).2.2 th.o hin th.o hoA rfl
      have ho_lt : th.o < s.slots.length := h.bound _ (mem_append_right _ hoA)
      have htail_mem : s.tail ∈ free := mem_of_getLast? h.tail
      have ht_lt : s.tail < s.slots.length := h.bound _ (mem_append_left _ htail_mem)
      have hx := owned_finishOp { th with ot := s.tail, pc := .uDecCnt } (.pushed th.o)
      simp only at hx
      have hp := flatMap_owned_set s.ths t th (finishOp { th with ot := s.tail, pc := .uDecCnt } (.pushed th.o)) hth
      rw [hown] at hp
      have hp2 := hp.trans (Perm.append_left _ hx)
      -- A' ++ (held ++ [o]) ~ A ++ held  ⟹  [o] ++ A' ~ A
      have hp3 : (([th.o] ++ flatMap owned (s.ths.set t (finishOp { th with ot := s.tail, pc := .uDecCnt } (.pushed th.o)))) ++ th.held).Perm
                  (flatMap owned s.ths ++ th.held) := by
        refine Perm.trans ?_ hp2
        rw [append_assoc, ← append_assoc _ th.held]
        calc [th.o] ++ (flatMap owned _ ++ th.held) ~ (flatMap owned _ ++ th.held) ++ [th.o] := perm_append_comm
          _ = _ := by simp
      have hp4 := (perm_append_right_iff _).mp hp3
      have hfree_ne : free ≠ [] := by intro hnil; have := h.chain; simp [hnil, Chain] at this
      refine rep_of_perm s _ free (free ++ [th.o]) h (by simp) ?_ ?_ (by simp) ?_ ?_ ?_
      · simp only
        apply chain_snoc _ free s.tail th.o
        · rw [chain_modify_notin _ _ _ _ hnotin]; exact h.chain
        · exact h.tail
        · exact hnotin
        · exact (nodup_append.mp hnd).1
        · rw [gs_modify]; simp [ho_lt]
        · simpa using ht_lt
      · have := h.head
        cases hfe : free with
        | nil => exact absurd hfe hfree_ne
        | cons x xs => simpa [hfe] using this
      · have := h.size; simp; omega
      · simp only
        rw [append_assoc]
        exact Perm.append_left _ hp4
      · exact boundary_set _ _ _ h.boundary (boundary_startNextAux _ _)

end FreeListC
