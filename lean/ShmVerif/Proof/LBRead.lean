import ShmVerif.Model.Pipe
/-!
  Reader half of the byte-pipe refinement: every BufferReader operation of the linked buffer acts on the abstract
  content (the concatenation of the unread parts of the slices, front first) as `take` / `drop`, wherever slice
  boundaries fall, and recycling consumed slices never alters payload bytes.
-/
namespace LB
open List

def BS.unread (m : Mem) (s : BS) : List Nat := ((s.bytes m).drop s.ri).take s.size

def content (m : Mem) (sl : List BS) : List Nat := sl.flatMap (BS.unread m)

/-- a slice's indices are inside its payload -/
def BS.WF (m : Mem) (s : BS) : Prop := s.ri ≤ s.wi ∧ s.wi ≤ (s.bytes m).length

theorem BS.unread_length (m : Mem) (s : BS) (h : s.WF m) : (s.unread m).length = s.size := by
  unfold BS.unread BS.size BS.WF at *
  simp only [length_take, length_drop]; omega

/-! ### recycling does not touch payload bytes -/

theorem slot_data_setSlot_hdr (m : Mem) (i j : Nat) (f : Hdr → Hdr) :
    ((m.setSlot i (fun x => { x with hdr := f x.hdr })).slot j).data = (m.slot j).data := by
  unfold Mem.setSlot Mem.slot
  simp only [getD_eq_getElem?_getD, getElem?_modify]
  by_cases h : i = j
  · subst h
    cases hh : m.slots[i]? <;> simp [hh]
  · simp [h]

theorem recycle_data (m : Mem) (t : BS) (j : Nat) : ((m.recycle t).slot j).data = (m.slot j).data := by
  unfold Mem.recycle
  cases t.slot with
  | none => rfl
  | some i =>
    simp only
    cases (List.range m.caps.length).find? (fun c => m.caps.getD c 0 = t.cap) with
    | none => rfl
    | some c =>
      simp only
      have := slot_data_setSlot_hdr m i j (fun h => { h with size := 0, start := 0, hasNext := false, inUsed := false })
      simpa [Mem.slot] using this

theorem bytes_recycle (m : Mem) (t s : BS) : s.bytes (m.recycle t) = s.bytes m := by
  unfold BS.bytes
  cases s.slot with
  | none => rfl
  | some i => exact recycle_data m t i

theorem unread_recycle (m : Mem) (t s : BS) : s.unread (m.recycle t) = s.unread m := by
  unfold BS.unread; rw [bytes_recycle]

theorem content_recycle (m : Mem) (t : BS) (sl : List BS) : content (m.recycle t) sl = content m sl := by
  unfold content
  induction sl with
  | nil => rfl
  | cons a r ih => simp only [flatMap_cons, unread_recycle, ih]

theorem wf_recycle (m : Mem) (t s : BS) (h : s.WF m) : s.WF (m.recycle t) := by
  unfold BS.WF at *; rw [bytes_recycle]; exact h

/-! ### one slice -/

theorem BS.read_spec (m : Mem) (s : BS) (n : Nat) (h : s.WF m) :
    let r := s.read m n
    r.2.1 = (s.unread m).take n ∧ r.1.unread m = (s.unread m).drop n ∧ r.1.WF m ∧
    r.2.1.length = min n s.size ∧ (r.2.2 = true ↔ s.size < n) ∧ r.1.bytes m = s.bytes m := by
  unfold BS.read BS.unread BS.size BS.WF BS.bytes at *
  obtain ⟨h1, h2⟩ := h
  simp only
  refine ⟨?_, ?_, ?_, ?_, by simp, trivial⟩
  · rw [take_take]
  · by_cases hn : n ≤ s.wi - s.ri
    · rw [Nat.min_eq_left hn, drop_take, drop_drop]
      congr 1; omega
    · have hm : min n (s.wi - s.ri) = s.wi - s.ri := Nat.min_eq_right (by omega)
      rw [hm, drop_take]
      have e1 : s.wi - (s.ri + (s.wi - s.ri)) = 0 := by omega
      have e2 : s.wi - s.ri - n = 0 := by omega
      rw [e1, e2]; simp
  · constructor <;> omega
  · simp only [length_take, length_drop]; omega

theorem content_cons (m : Mem) (s : BS) (r : List BS) : content m (s :: r) = s.unread m ++ content m r := by
  simp [content]

end LB

namespace LB
open List

def SlicesWF (m : Mem) (sl : List BS) : Prop := ∀ s ∈ sl, s.WF m

theorem slicesWF_recycle (m : Mem) (t : BS) (sl : List BS) (h : SlicesWF m sl) : SlicesWF (m.recycle t) sl :=
  fun s hs => wf_recycle m t s (h s hs)

/-- readNextSlice drops the front slice (recycling or pinning it); the rest and its content are untouched -/
theorem readNext_spec (m : Mem) (l : LBuf) (s : BS) (r : List BS) (hsl : l.sl = s :: r) (hwf : SlicesWF m l.sl) :
    ∃ m' l', l.readNext m = some (m', l') ∧ l'.sl = r ∧ content m' r = content m r ∧ SlicesWF m' r ∧
      l'.len = l.len ∧ (∀ j, (m'.slot j).data = (m.slot j).data) := by
  unfold LBuf.readNext
  rw [hsl]
  have hr : SlicesWF m r := fun x hx => hwf x (by rw [hsl]; exact mem_cons_of_mem _ hx)
  simp only
  by_cases hshm : s.isShm = true
  · simp only [hshm, if_true]
    by_cases hp : l.curPinned = true
    · simp only [hp, if_true]
      exact ⟨_, _, rfl, rfl, rfl, hr, rfl, fun _ => rfl⟩
    · simp only [hp]
      exact ⟨_, _, rfl, rfl, content_recycle m s r, slicesWF_recycle m s r hr, rfl, fun j => recycle_data m s j⟩
  · simp only [hshm]
    exact ⟨_, _, rfl, rfl, rfl, hr, rfl, fun _ => rfl⟩

theorem content_length_cons (m : Mem) (s : BS) (r : List BS) (hs : s.WF m) :
    (content m (s :: r)).length = s.size + (content m r).length := by
  rw [content_cons, length_append, BS.unread_length m s hs]

theorem setFront_sl (l : LBuf) (s' : BS) : (l.setFront s').sl = s' :: l.sl.tail := rfl

theorem take_app_ge {α} (a b : List α) (n : Nat) (h : a.length ≤ n) : (a ++ b).take n = a ++ b.take (n - a.length) := by
  rw [take_append, take_of_length_le h]
theorem drop_app_ge {α} (a b : List α) (n : Nat) (h : a.length ≤ n) : (a ++ b).drop n = b.drop (n - a.length) := by
  rw [drop_append, drop_of_length_le h, nil_append]
theorem take_app_le {α} (a b : List α) (n : Nat) (h : n ≤ a.length) : (a ++ b).take n = a.take n := by
  rw [take_append]; have : n - a.length = 0 := by omega
  rw [this]; simp
theorem drop_app_le {α} (a b : List α) (n : Nat) (h : n ≤ a.length) : (a ++ b).drop n = a.drop n ++ b := by
  rw [drop_append]; have : n - a.length = 0 := by omega
  rw [this]; simp

/-- the slow path of ReadBytes: copies `need` bytes across slices -/
theorem readBytes_slow_spec : ∀ (fuel : Nat) (m : Mem) (l : LBuf) (need : Nat) (acc : List Nat),
    SlicesWF m l.sl → need ≤ (content m l.sl).length → l.sl.length < fuel →
    ∃ m' l', LBuf.readBytes.slow fuel m l need acc = some (m', l', acc ++ (content m l.sl).take need) ∧
      content m' l'.sl = (content m l.sl).drop need ∧ SlicesWF m' l'.sl ∧ l'.len = l.len ∧
      (∀ j, (m'.slot j).data = (m.slot j).data) := by
  intro fuel
  induction fuel with
  | zero => intro m l need acc _ _ h; omega
  | succ k ih =>
    intro m l need acc hwf hneed hfuel
    unfold LBuf.readBytes.slow
    by_cases h0 : need = 0
    · subst h0
      simp only [if_true, take_zero, append_nil, drop_zero]
      exact ⟨m, l, rfl, rfl, hwf, rfl, fun _ => rfl⟩
    · simp only [h0, if_false]
      cases hsl : l.sl with
      | nil => rw [hsl] at hneed; simp [content] at hneed; omega
      | cons f r =>
        have hf : f.WF m := hwf f (by rw [hsl]; exact mem_cons_self)
        have hr : SlicesWF m r := fun x hx => hwf x (by rw [hsl]; exact mem_cons_of_mem _ hx)
        simp only [LBuf.front?, hsl, head?_cons]
        obtain ⟨rd1, rd2, rd3, rd4, rd5, rd6⟩ := BS.read_spec m f need hf
        rcases hrd : f.read m need with ⟨f', d, sh⟩
        rw [hrd] at rd1 rd2 rd3 rd4 rd5 rd6
        simp only at rd1 rd2 rd3 rd4 rd5 rd6 ⊢
        have hu := BS.unread_length m f hf
        have hsl1 : (l.setFront f').sl = f' :: r := by rw [setFront_sl, hsl]; rfl
        have hwf1 : SlicesWF m (l.setFront f').sl := by
          rw [hsl1]; intro x hx
          rcases mem_cons.mp hx with rfl | hx
          · exact rd3
          · exact hr x hx
        have hclen := content_length_cons m f r hf
        rw [hsl] at hneed hfuel
        by_cases hlen : d.length ≠ need
        · -- the front slice is exhausted: pop it and continue with the rest
          rw [if_pos hlen]
          have hsz : f.size < need := by rw [rd4] at hlen; omega
          have hd : d = f.unread m := by rw [rd1, take_of_length_le (by omega)]
          have hdl : d.length = f.size := by rw [hd, hu]
          obtain ⟨m2, l2, e1, e2, e3, e4, e5, e6⟩ := readNext_spec m (l.setFront f') _ r hsl1 hwf1
          rw [e1]
          simp only
          have hneed2 : need - d.length ≤ (content m2 l2.sl).length := by
            rw [e2, e3, hdl]; rw [hclen] at hneed; omega
          obtain ⟨m3, l3, g1, g2, g3, g4, g5⟩ := ih m2 l2 (need - d.length) (acc ++ d)
            (by rw [e2]; exact e4) hneed2 (by rw [e2]; simp at hfuel; omega)
          refine ⟨m3, l3, ?_, ?_, g3, ?_, fun j => (g5 j).trans (e6 j)⟩
          · rw [g1, e2, e3, content_cons, take_app_ge _ _ _ (by omega), hd, hu, append_assoc]
          · rw [g2, e2, e3, content_cons, drop_app_ge _ _ _ (by omega), hd, hu]
          · rw [g4, e5]; rfl
        · -- the front slice holds everything that is still needed
          have hlen' : d.length = need := by simpa using hlen
          rw [if_neg hlen]
          have hsz : need ≤ f.size := by rw [rd4] at hlen'; omega
          have hz : need - d.length = 0 := by omega
          rw [hz]
          cases k with
          | zero => simp at hfuel
          | succ k' =>
            unfold LBuf.readBytes.slow
            simp only [if_true]
            refine ⟨m, l.setFront f', ?_, ?_, hwf1, rfl, fun _ => rfl⟩
            · rw [content_cons, take_app_le _ _ _ (by omega), rd1]
            · rw [hsl1, content_cons, content_cons, rd2, drop_app_le _ _ _ (by omega)]

end LB

namespace LB
open List

theorem content_pos_nonempty (m : Mem) (sl : List BS) (h : 0 < (content m sl).length) : sl ≠ [] := by
  intro e; subst e; simp [content] at h

/-- ReadBytes(size) with `size` bytes buffered: returns exactly the next `size` bytes of the content and removes them -/
theorem readBytes_spec (m : Mem) (l : LBuf) (size : Nat) (hwf : SlicesWF m l.sl)
    (hpos : 0 < size) (hsz : size ≤ (content m l.sl).length) :
    ∃ m' l' d, l.readBytes m size = some (m', l', d) ∧ d = (content m l.sl).take size ∧
      content m' l'.sl = (content m l.sl).drop size ∧ SlicesWF m' l'.sl ∧ l'.len = l.len - size ∧
      (∀ j, (m'.slot j).data = (m.slot j).data) := by
  unfold LBuf.readBytes
  have h0 : ¬ size = 0 := by omega
  simp only [h0, if_false]
  cases hsl : l.sl with
  | nil => rw [hsl] at hsz; simp [content] at hsz; omega
  | cons f0 r0 =>
    simp only [LBuf.front?, hsl, head?_cons]
    have hf0 : f0.WF m := hwf f0 (by rw [hsl]; exact mem_cons_self)
    -- after the optional skip of an empty front slice we are in a state (m1, l1) with the same content
    have hstep : ∃ m1 l1, (if f0.size = 0 then l.readNext m else some (m, l)) = some (m1, l1) ∧
        content m1 l1.sl = content m l.sl ∧ SlicesWF m1 l1.sl ∧ l1.len = l.len ∧
        (∀ j, (m1.slot j).data = (m.slot j).data) := by
      by_cases he : f0.size = 0
      · rw [if_pos he]
        obtain ⟨m1, l1, e1, e2, e3, e4, e5, e6⟩ := readNext_spec m l f0 r0 hsl hwf
        refine ⟨m1, l1, e1, ?_, by rw [e2]; exact e4, e5, e6⟩
        rw [e2, e3, hsl, content_cons]
        have : f0.unread m = [] := by
          have := BS.unread_length m f0 hf0; rw [he] at this; exact length_eq_zero_iff.mp this
        rw [this, nil_append]
      · rw [if_neg he]; exact ⟨m, l, rfl, rfl, hwf, rfl, fun _ => rfl⟩
    obtain ⟨m1, l1, e1, e2, e3, e4, e5⟩ := hstep
    rw [e1]
    simp only
    rw [hsl] at e2 hsz
    rw [← e2] at hsz ⊢
    cases hsl1 : l1.sl with
    | nil => rw [hsl1] at hsz; simp [content] at hsz; omega
    | cons f r =>
      simp only [LBuf.front?, hsl1, head?_cons]
      have hf : f.WF m1 := e3 f (by rw [hsl1]; exact mem_cons_self)
      have hr : SlicesWF m1 r := fun x hx => e3 x (by rw [hsl1]; exact mem_cons_of_mem _ hx)
      have hu := BS.unread_length m1 f hf
      by_cases hfast : f.size ≥ size
      · rw [if_pos hfast]
        obtain ⟨rd1, rd2, rd3, rd4, rd5, rd6⟩ := BS.read_spec m1 f size hf
        rcases hrd : f.read m1 size with ⟨f', d, sh⟩
        rw [hrd] at rd1 rd2 rd3 rd4 rd5 rd6
        simp only at rd1 rd2 rd3 rd4 rd5 rd6 ⊢
        refine ⟨m1, _, d, rfl, ?_, ?_, ?_, ?_, e5⟩
        · rw [rd1, content_cons, take_app_le _ _ _ (by omega)]
        · show content m1 (f' :: l1.sl.tail) = _
          rw [hsl1, content_cons, content_cons, rd2, drop_app_le _ _ _ (by omega)]; rfl
        · show SlicesWF m1 (f' :: l1.sl.tail)
          rw [hsl1]; intro x hx
          rcases mem_cons.mp hx with rfl | hx
          · exact rd3
          · exact hr x hx
        · show l1.len - size = l.len - size
          rw [e4]
      · rw [if_neg hfast]
        have := readBytes_slow_spec (l1.sl.length + size + 2) m1 { l1 with len := l1.len - size } size []
          (by exact e3) (by rw [hsl1]; rw [hsl1] at hsz; exact hsz) (by simp only []; omega)
        obtain ⟨m3, l3, g1, g2, g3, g4, g5⟩ := this
        rw [hsl1] at g1
        refine ⟨m3, l3, _, g1, by simp [hsl1], by rw [g2]; simp only [hsl1], g3, by rw [g4, e4], fun j => (g5 j).trans (e5 j)⟩

end LB

namespace LB
open List

theorem BS.peek_spec (m : Mem) (s : BS) (n : Nat) (h : s.WF m) : s.peek m n = (s.unread m).take n := by
  unfold BS.peek BS.unread BS.size
  rw [take_take]

def peekStep (m : Mem) (acc : List Nat × Nat) (e : BS) : List Nat × Nat :=
  if acc.2 > 0 then let x := e.peek m acc.2; (acc.1 ++ x, acc.2 - x.length) else acc

theorem peek_fold_spec (m : Mem) : ∀ (rest : List BS) (d : List Nat) (n : Nat), SlicesWF m rest →
    (rest.foldl (peekStep m) (d, n)).1 = d ++ (content m rest).take n := by
  intro rest
  induction rest with
  | nil => intro d n _; simp [content]
  | cons e r ih =>
    intro d n hwf
    have he : e.WF m := hwf e mem_cons_self
    have hr : SlicesWF m r := fun x hx => hwf x (mem_cons_of_mem _ hx)
    have hu := BS.unread_length m e he
    simp only [foldl_cons, peekStep]
    by_cases hn : n > 0
    · simp only [hn, if_true]
      rw [BS.peek_spec m e n he]
      have := ih (d ++ (e.unread m).take n) (n - ((e.unread m).take n).length) hr
      rw [this, content_cons, append_assoc]
      congr 1
      rw [take_append]
      congr 2
      simp only [length_take]; omega
    · have hn0 : n = 0 := by omega
      subst hn0
      rw [if_neg (by omega)]
      have := ih d 0 hr
      rw [this]; simp

/-- Peek(size) with `size` bytes buffered returns the next `size` bytes and consumes nothing -/
theorem peek_spec (m : Mem) (l : LBuf) (size : Nat) (hwf : SlicesWF m l.sl)
    (hpos : 0 < size) (hsz : size ≤ (content m l.sl).length) :
    ∃ l' d, l.peekBytes m size = some (l', d) ∧ d = (content m l.sl).take size ∧ l'.sl = l.sl ∧ l'.len = l.len := by
  unfold LBuf.peekBytes
  have h0 : ¬ size = 0 := by omega
  simp only [h0, if_false]
  cases hsl : l.sl with
  | nil => rw [hsl] at hsz; simp [content] at hsz; omega
  | cons f r =>
    have hf : f.WF m := hwf f (by rw [hsl]; exact mem_cons_self)
    have hr : SlicesWF m r := fun x hx => hwf x (by rw [hsl]; exact mem_cons_of_mem _ hx)
    have hu := BS.unread_length m f hf
    simp only [LBuf.front?, hsl, head?_cons, tail_cons]
    rw [BS.peek_spec m f size hf]
    by_cases hfast : ((f.unread m).take size).length = size
    · rw [if_pos hfast]
      refine ⟨_, _, rfl, ?_, by simp [hsl], rfl⟩
      rw [content_cons, take_app_le]
      simp only [length_take] at hfast; omega
    · rw [if_neg hfast]
      refine ⟨l, _, rfl, ?_, hsl, rfl⟩
      have := peek_fold_spec m r ((f.unread m).take size) (size - ((f.unread m).take size).length) hr
      change (foldl (peekStep m) _ r).1 = _
      rw [this, content_cons]
      simp only [length_take] at hfast ⊢
      have hlt : f.size < size := by omega
      rw [take_of_length_le (by omega), take_app_ge _ _ _ (by omega)]
      congr 2
      omega

end LB

namespace LB
open List

theorem BS.skip_spec (m : Mem) (s : BS) (n : Nat) (h : s.WF m) :
    (s.skip n).2 = min n s.size ∧ (s.skip n).1.unread m = (s.unread m).drop n ∧ (s.skip n).1.WF m := by
  have := BS.read_spec m s n h
  unfold BS.skip BS.read at *
  simp only at this ⊢
  exact ⟨trivial, this.2.1, this.2.2.1⟩

theorem discard_go_spec : ∀ (fuel : Nat) (m : Mem) (l : LBuf) (need n : Nat),
    SlicesWF m l.sl → 0 < need → need ≤ (content m l.sl).length → l.sl.length < fuel →
    ∃ m' l', LBuf.discard.go fuel m l need n = some (m', l', n + need) ∧
      content m' l'.sl = (content m l.sl).drop need ∧ SlicesWF m' l'.sl ∧ l'.len = l.len - (n + need) ∧
      (∀ j, (m'.slot j).data = (m.slot j).data) := by
  intro fuel
  induction fuel with
  | zero => intro m l need n _ _ _ h; omega
  | succ k ih =>
    intro m l need n hwf hpos hneed hfuel
    unfold LBuf.discard.go
    cases hsl : l.sl with
    | nil => rw [hsl] at hneed; simp [content] at hneed; omega
    | cons f r =>
      have hf : f.WF m := hwf f (by rw [hsl]; exact mem_cons_self)
      have hr : SlicesWF m r := fun x hx => hwf x (by rw [hsl]; exact mem_cons_of_mem _ hx)
      have hu := BS.unread_length m f hf
      simp only [LBuf.front?, hsl, head?_cons]
      obtain ⟨s1, s2, s3⟩ := BS.skip_spec m f need hf
      rcases hsk : f.skip need with ⟨f', sk⟩
      rw [hsk] at s1 s2 s3
      simp only at s1 s2 s3 ⊢
      have hsl1 : (l.setFront f').sl = f' :: r := by rw [setFront_sl, hsl]; rfl
      have hwf1 : SlicesWF m (l.setFront f').sl := by
        rw [hsl1]; intro x hx
        rcases mem_cons.mp hx with rfl | hx
        · exact s3
        · exact hr x hx
      have hclen := content_length_cons m f r hf
      rw [hsl] at hneed hfuel
      by_cases hdone : need - sk = 0
      · rw [if_pos hdone]
        have hle : need ≤ f.size := by omega
        have hsk2 : sk = need := by omega
        subst hsk2
        refine ⟨m, _, rfl, ?_, hwf1, rfl, fun _ => rfl⟩
        show content m (l.setFront f').sl = _
        rw [hsl1, content_cons, content_cons, s2, drop_app_le _ _ _ (by omega)]
      · rw [if_neg hdone]
        have hlt : f.size < need := by omega
        have hsk' : sk = f.size := by omega
        obtain ⟨m2, l2, e1, e2, e3, e4, e5, e6⟩ := readNext_spec m (l.setFront f') _ r hsl1 hwf1
        rw [e1]
        simp only
        obtain ⟨m3, l3, g1, g2, g3, g4, g5⟩ := ih m2 l2 (need - sk) (n + sk) (by rw [e2]; exact e4) (by omega)
          (by rw [e2, e3]; rw [hclen] at hneed; omega) (by rw [e2]; simp at hfuel; omega)
        refine ⟨m3, l3, ?_, ?_, g3, ?_, fun j => (g5 j).trans (e6 j)⟩
        · rw [g1]; congr 3; omega
        · rw [g2, e2, e3, content_cons, drop_app_ge _ _ _ (by omega), hu, hsk']
        · rw [g4, e5]; show l.len - _ = _; congr 1; omega

/-- Discard(size) with `size` bytes buffered removes exactly the next `size` bytes -/
theorem discard_spec (m : Mem) (l : LBuf) (size : Nat) (hwf : SlicesWF m l.sl)
    (hpos : 0 < size) (hsz : size ≤ (content m l.sl).length) :
    ∃ m' l', l.discard m size = some (m', l', size) ∧ content m' l'.sl = (content m l.sl).drop size ∧
      SlicesWF m' l'.sl ∧ l'.len = l.len - size ∧ (∀ j, (m'.slot j).data = (m.slot j).data) := by
  unfold LBuf.discard
  have h0 : ¬ size = 0 := by omega
  simp only [h0, if_false]
  obtain ⟨m', l', g1, g2, g3, g4, g5⟩ := discard_go_spec (l.sl.length + 2) m l size 0 hwf hpos hsz (by omega)
  exact ⟨m', l', by simpa using g1, g2, g3, by simpa using g4, g5⟩

end LB
