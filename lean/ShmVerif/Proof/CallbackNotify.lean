import ShmVerif.Proof.Callback
/-!
  Second invariant of the callback-mode model: who closes, and how often the peer is told.
  (Repaired code: a Close issued while a callback goroutine is in process leaves the distinct state `localClosing`,
  so the goroutine that finishes the close still notifies the peer and calls OnLocalClose.)
-/
namespace Callback
open List

def carriesClosed : GPc → Bool | .closeCas .closed | .waitG .closed | .cleaning .closed => true | _ => false
def carriesHalf : GPc → Bool | .closeCas .half | .waitG .half | .cleaning .half => true | _ => false
def uCarriesClosed : UPc → Bool | .closeCas .closed | .waitG .closed | .cleaning .closed => true | _ => false
def uCarriesHalf : UPc → Bool | .closeCas .half | .waitG .half | .cleaning .half => true | _ => false

structure NInv (s : State) : Prop where
  bad : s.gs.countP carriesClosed = 0 ∧ uCarriesClosed s.u = false
  nhalf : s.onRemote = 0 → s.state ≠ .half ∧ s.gs.countP carriesHalf = 0 ∧ uCarriesHalf s.u = false
  n1 : s.state ≠ .closed → s.gs.countP isClosing = 0 ∧ uClosing s.u = false ∧ s.notified = 0
  n2 : s.gs.countP isClosing + b2n (uClosing s.u) ≤ 1 ∧ (s.gs.countP isClosing + b2n (uClosing s.u) = 1 → s.notified = 0) ∧ s.notified ≤ 1
  n4 : s.state = .closed → s.onRemote = 0 → s.gs.countP isClosing + b2n (uClosing s.u) + s.notified = 1
  nl : s.onLocal = s.notified

theorem ninv_init : NInv init := by
  constructor <;> simp [init, b2n, uClosing, uCarriesClosed, uCarriesHalf]

@[simp] theorem ce_onRemote (s : State) (old : St) : (closeEffects s old).onRemote = s.onRemote := by unfold closeEffects; split <;> rfl
theorem ce_notified (s : State) (old : St) : (closeEffects s old).notified = s.notified + (if old = .opened ∨ old = .localClosing then 1 else 0) := by
  unfold closeEffects; split <;> simp_all
theorem ce_onLocal (s : State) (old : St) : (closeEffects s old).onLocal = s.onLocal + (if old = .opened ∨ old = .localClosing then 1 else 0) := by
  unfold closeEffects; split <;> simp_all

theorem ninv_stepE {s : State} (h : NInv s) (cmd : ECmd) : NInv (stepE s cmd) := by
  obtain ⟨bad, nhalf, n1, n2, n4, nl⟩ := h
  unfold stepE
  cases he : s.e with
  | idle => cases cmd <;> exact ⟨bad, nhalf, n1, n2, n4, nl⟩
  | dataLoad => simp only []; split <;> exact ⟨bad, nhalf, n1, n2, n4, nl⟩
  | dataCas =>
    simp only []
    split
    · exact ⟨bad, nhalf, n1, n2, n4, nl⟩
    · have e1 : ∀ P : GPc → Bool, P .start = false → (s.gs ++ [GPc.start]).countP P = s.gs.countP P := by
        intro P hP; rw [List.countP_append]; simp [List.countP_cons, hP]
      constructor <;> simp only [] <;> (try rw [e1 _ rfl]) <;> (try rw [e1 _ rfl]) <;> assumption
  | pcloseCas =>
    simp only []
    split
    · rename_i hs
      refine ⟨bad, ?_, ?_, n2, ?_, nl⟩
      · intro h; simp at h
      · intro _; exact n1 (by simp [hs])
      · intro h; simp at h
    · exact ⟨bad, nhalf, n1, n2, n4, nl⟩

set_option maxHeartbeats 1000000 in
theorem ninv_stepU {s : State} (h : NInv s) : NInv (stepU s) := by
  obtain ⟨bad, nhalf, n1, n2, n4, nl⟩ := h
  unfold stepU
  cases hu : s.u with
  | closeCas old =>
    simp only []
    split
    · split <;> constructor <;> simp only [ce_gs, ce_u, ce_state, ce_onRemote, ce_notified, ce_onLocal] <;>
        generalize s.gs.countP isClosing = cK at * <;> generalize s.gs.countP carriesHalf = cH at * <;>
        generalize s.gs.countP carriesClosed = cX at * <;>
        cases old <;> simp [hu, b2n, uClosing, uCarriesClosed, uCarriesHalf] at * <;> (try omega) <;> (try (intros; simp_all <;> omega))
    · constructor <;> simp only [] <;>
        generalize s.gs.countP isClosing = cK at * <;> generalize s.gs.countP carriesHalf = cH at * <;>
        generalize s.gs.countP carriesClosed = cX at * <;>
        cases old <;> simp [hu, b2n, uClosing, uCarriesClosed, uCarriesHalf] at * <;> (try omega) <;> (try (intros; simp_all <;> omega))
  | waitG old =>
    simp only []
    split
    · constructor <;> simp only [] <;>
        generalize s.gs.countP isClosing = cK at * <;> generalize s.gs.countP carriesHalf = cH at * <;>
        generalize s.gs.countP carriesClosed = cX at * <;>
        cases old <;> simp [hu, b2n, uClosing, uCarriesClosed, uCarriesHalf] at * <;> (try omega) <;> (try (intros; simp_all <;> omega))
    · exact ⟨bad, nhalf, n1, n2, n4, nl⟩
  | cleaning old =>
    constructor <;> simp only [ce_gs, ce_u, ce_state, ce_onRemote, ce_notified, ce_onLocal] <;>
        generalize s.gs.countP isClosing = cK at * <;> generalize s.gs.countP carriesHalf = cH at * <;>
        generalize s.gs.countP carriesClosed = cX at * <;>
        cases old <;> cases hs : s.state <;> simp [hu, hs, b2n, uClosing, uCarriesClosed, uCarriesHalf] at * <;> (try omega) <;> (try (intros; simp_all <;> omega))
  | closeLoad =>
    simp only []
    split
    · constructor <;> simp only [] <;>
        generalize s.gs.countP isClosing = cK at * <;> generalize s.gs.countP carriesHalf = cH at * <;>
        generalize s.gs.countP carriesClosed = cX at * <;>
        simp [hu, b2n, uClosing, uCarriesClosed, uCarriesHalf] at * <;> (try omega) <;> (try (intros; simp_all <;> omega))
    · constructor <;> simp only [] <;>
        generalize s.gs.countP isClosing = cK at * <;> generalize s.gs.countP carriesHalf = cH at * <;>
        generalize s.gs.countP carriesClosed = cX at * <;>
        cases hs : s.state <;> simp [hu, hs, b2n, uClosing, uCarriesClosed, uCarriesHalf] at * <;> (try omega) <;> (try (intros; simp_all <;> omega))
  | done => exact ⟨bad, nhalf, n1, n2, n4, nl⟩
  | _ =>
    simp only []
    (try split) <;> constructor <;> simp only [] <;>
        generalize s.gs.countP isClosing = cK at * <;> generalize s.gs.countP carriesHalf = cH at * <;>
        generalize s.gs.countP carriesClosed = cX at * <;>
        cases hs : s.state <;> simp [hu, hs, b2n, uClosing, uCarriesClosed, uCarriesHalf] at * <;> (try omega) <;> (try (intros; simp_all <;> omega))

set_option hygiene false in
local macro "nfin" : tactic => `(tactic| (
  constructor <;> simp only [ce_gs, ce_u, ce_state, ce_onRemote, ce_notified, ce_onLocal] <;>
  (try simp only [cK', cH', cX']) <;> clear cK' cH' cX' h0 <;>
  (generalize hst : s.state = st at *; cases st) <;>
  simp [carriesClosed, carriesHalf, isClosing, b2n] at * <;> (try omega) <;> (try (intros; simp_all <;> omega))))

set_option maxHeartbeats 1000000 in
theorem ninv_stepG {s : State} (h : NInv s) (i : Nat) (od : OnData) : NInv (stepG s i od) := by
  unfold stepG
  split
  · exact h
  · rename_i pc hg
    have cK := countP_split isClosing s.gs i pc hg
    have cK' := fun a => countP_set_split isClosing s.gs i pc a hg
    have cH := countP_split carriesHalf s.gs i pc hg
    have cH' := fun a => countP_set_split carriesHalf s.gs i pc a hg
    have cX := countP_split carriesClosed s.gs i pc hg
    have cX' := fun a => countP_set_split carriesClosed s.gs i pc a hg
    have h0 := h
    obtain ⟨bad, nhalf, n1, n2, n4, nl⟩ := h
    rw [cK] at n1 n2 n4; rw [cH] at nhalf; rw [cX] at bad
    generalize (s.gs.eraseIdx i).countP isClosing = rK at *
    generalize (s.gs.eraseIdx i).countP carriesHalf = rH at *
    generalize (s.gs.eraseIdx i).countP carriesClosed = rX at *
    clear cK cH cX
    cases pc with
    | done => exact h0
    | waitG old =>
      simp only [setG, moveTo, List.set_set]
      split
      · cases old <;> nfin
      · exact h0
    | cleaning old =>
      simp only [setG]
      cases old <;> nfin
    | closeCas old =>
      simp only [setG, moveTo, List.set_set]
      cases old <;> (repeat' split) <;> nfin
    | closeLoad =>
      simp only [setG, moveTo, List.set_set]
      (repeat' split) <;> nfin
    | in1 =>
      simp only [setG, moveTo, List.set_set]
      (repeat' split) <;> nfin
    | _ =>
      simp only [setG, moveTo, List.set_set]
      (repeat' split) <;> nfin

theorem ninv_step {s : State} (h : NInv s) (st : Step) : NInv (step s st) := by
  cases st with
  | e cmd => exact ninv_stepE h cmd
  | g i od => exact ninv_stepG h i od
  | u => exact ninv_stepU h

theorem ninv_run (sched : List Step) : ∀ s, NInv s → NInv (run s sched) := by
  induction sched with
  | nil => intro s h; exact h
  | cons st rest ih => intro s h; exact ih _ (ninv_step h st)

end Callback
