import ShmVerif.Model.Layout
/-!
  The layout computed by createBufferManager for every sane configuration:
  no panic; error or consecutive, in-bounds, pairwise disjoint classes; the mapper re-derives the same geometry.
-/
namespace Layout

theorem u32_of_lt {x : Nat} (h : x < W32) : u32 x = x := Nat.mod_eq_of_lt h

/-- classes laid out back to back starting at `start`, all inside the mapping -/
def WellLaid (memLen : Nat) : Nat → List ListGeom → Prop
  | _, [] => True
  | start, g :: r =>
    g.off = start ∧ g.regionOff = start + bufferListHeaderSize ∧ g.regionLen = g.num * (g.capPer + bufferHeaderSize) ∧
    0 < g.num ∧ 0 < g.capPer ∧ g.regionOff + g.regionLen ≤ memLen ∧ g.head = 0 ∧
    g.tail = (g.num - 1) * (g.capPer + bufferHeaderSize) ∧
    WellLaid memLen (g.regionOff + g.regionLen) r

def endOf : Nat → List ListGeom → Nat
  | start, [] => start
  | _, g :: r => endOf (g.regionOff + g.regionLen) r

theorem wellLaid_append (memLen start : Nat) (a b : List ListGeom) (ha : WellLaid memLen start a)
    (hb : WellLaid memLen (endOf start a) b) : WellLaid memLen start (a ++ b) := by
  induction a generalizing start with
  | nil => simpa [endOf] using hb
  | cons g r ih =>
    obtain ⟨h1, h2, h3, h4, h5, h6, h7, h8, h9⟩ := ha
    exact ⟨h1, h2, h3, h4, h5, h6, h7, h8, ih _ h9 hb⟩

theorem endOf_append (start : Nat) (a b : List ListGeom) : endOf start (a ++ b) = endOf (endOf start a) b := by
  induction a generalizing start with
  | nil => rfl
  | cons g r ih => simp [endOf, ih]

/-- sane configuration (what VerifyConfig accepts, plus the two arithmetic guards discussed in DESIGN §5 C03) -/
structure Sane (memLen : Nat) (pairs : List Pair) : Prop where
  memPos : 0 < memLen
  memLt : memLen < W32
  sizes : ∀ p ∈ pairs, p.size < W32        -- Size is a uint32
  headers : bufferListHeaderSize * pairs.length + bufferManagerHeaderSize ≤ memLen
  nonempty : pairs ≠ []

theorem floor_add_le (a b : Nat) : a / 100 + b / 100 ≤ (a + b) / 100 := by omega

/-- one class: the checks of createFreeBufferList pass or fail, but never panic, when the class fits -/
theorem createFreeBufferList_fits (num cap memLen off : Nat) (hmem : memLen < W32)
    (hcap : cap + bufferHeaderSize < W32)
    (hfit : off + bufferListHeaderSize + num * (cap + bufferHeaderSize) ≤ memLen) :
    match createFreeBufferList num cap memLen off with
    | .ok g => g.off = off ∧ g.regionOff = off + bufferListHeaderSize ∧ g.regionLen = num * (cap + bufferHeaderSize) ∧
               g.num = num ∧ g.capPer = cap ∧ 0 < num ∧ 0 < cap ∧ g.head = 0 ∧ g.tail = (num - 1) * (cap + bufferHeaderSize)
    | .err _ => True
    | .panic _ => False := by
  unfold createFreeBufferList
  by_cases h0 : num = 0 ∨ cap = 0
  · simp [h0]
  · have hn : 0 < num := by omega
    have hc : 0 < cap := by omega
    simp only [h0, if_false]
    have hstride : u32 (cap + bufferHeaderSize) = cap + bufferHeaderSize := u32_of_lt hcap
    have hprod : num * (cap + bufferHeaderSize) < W32 := by unfold bufferListHeaderSize at hfit; omega
    have hal : countBufferListMemSize num cap = bufferListHeaderSize + num * (cap + bufferHeaderSize) := by
      unfold countBufferListMemSize
      rw [hstride, u32_of_lt hprod, u32_of_lt (by unfold bufferListHeaderSize at *; omega)]
    rw [hal]
    have e1 : u32 (off + (bufferListHeaderSize + num * (cap + bufferHeaderSize))) = off + bufferListHeaderSize + num * (cap + bufferHeaderSize) := by
      rw [u32_of_lt (by omega)]; omega
    have e2 : u32 memLen = memLen := u32_of_lt hmem
    have e3 : u32 (off + bufferListHeaderSize) = off + bufferListHeaderSize := u32_of_lt (by omega)
    have hpos : 0 < num * (cap + bufferHeaderSize) := Nat.mul_pos hn (by unfold bufferHeaderSize; omega)
    have hle : (num - 1) * (cap + bufferHeaderSize) + (cap + bufferHeaderSize) = num * (cap + bufferHeaderSize) := by
      have : num = (num - 1) + 1 := by omega
      conv => rhs; rw [this, Nat.add_mul, Nat.one_mul]
    simp only [e1, e2, e3, hstride]
    have c1 : ¬ (memLen < off + bufferListHeaderSize + num * (cap + bufferHeaderSize) ∨ off > memLen ∨
                  bufferListHeaderSize + num * (cap + bufferHeaderSize) > memLen) := by omega
    simp only [c1, if_false]
    have c2 : ¬ (off + bufferListHeaderSize + num * (cap + bufferHeaderSize) ≤ off + bufferListHeaderSize) := by omega
    simp only [c2, if_false]
    have c3 : ([0, 4, 8, 12, 16, 20].any fun k => decide (u32 (off + k) ≥ memLen)) = false := by
      unfold bufferListHeaderSize at *
      simp only [List.any_cons, List.any_nil, Bool.or_false, Bool.or_eq_false_iff, decide_eq_false_iff_not]
      refine ⟨?_, ?_, ?_, ?_, ?_, ?_⟩ <;> (rw [u32_of_lt (by omega)]; omega)
    simp only [c3, Bool.false_eq_true, if_false]
    have c4 : ¬ (off + bufferListHeaderSize + num * (cap + bufferHeaderSize) > memLen) := by omega
    simp only [c4, if_false]
    have c5 : ¬ ((num - 1) * (cap + bufferHeaderSize) + bufferHeaderSize >
                  off + bufferListHeaderSize + num * (cap + bufferHeaderSize) - (off + bufferListHeaderSize)) := by
      unfold bufferHeaderSize at *; omega
    simp only [c5, if_false]
    have htail : u32 ((num - 1) * (cap + bufferHeaderSize)) = (num - 1) * (cap + bufferHeaderSize) := u32_of_lt (by omega)
    refine ⟨trivial, trivial, by omega, trivial, trivial, hn, hc, trivial, htail⟩


theorem createLoop_sane (memLen R : Nat) (hmem : memLen < W32) (hR : R ≤ memLen) :
    ∀ (pairs : List Pair) (hadUsed sum : Nat) (acc : List ListGeom),
      (∀ p ∈ pairs, p.size < W32 ∧ p.percent ≤ 100) →
      sum ≤ 100 →
      hadUsed + bufferListHeaderSize * pairs.length + (R * (100 - sum)) / 100 ≤ memLen →
      match createLoop memLen R pairs hadUsed sum acc with
      | .ok (ls, hu) => ∃ new, ls = acc ++ new ∧ WellLaid memLen hadUsed new ∧ hu = endOf hadUsed new ∧
                          new.map (·.capPer) = pairs.map (·.size) ∧ hu ≤ memLen
      | .err _ => True
      | .panic _ => False := by
  intro pairs
  induction pairs with
  | nil =>
    intro hadUsed sum acc _ _ hfit
    simp only [createLoop]
    exact ⟨[], by simp, trivial, rfl, rfl, by simp at hfit; omega⟩
  | cons p rest ih =>
    intro hadUsed sum acc hp hsum hfit
    have hp0 := hp p List.mem_cons_self
    have hW : (200 : Nat) < W32 := by unfold W32; omega
    simp only [createLoop]
    have hs' : u32 (sum + p.percent) = sum + p.percent := u32_of_lt (by omega)
    rw [hs']
    by_cases hgt : sum + p.percent > 100
    · simp [hgt]
    · simp only [hgt, if_false]
      by_cases hov : u32 (p.size + bufferHeaderSize) < bufferHeaderSize
      · simp [hov]
      simp only [hov, if_false]
      have hsz : p.size + bufferHeaderSize < W32 := by
        rcases Nat.lt_or_ge (p.size + bufferHeaderSize) W32 with h | h
        · exact h
        · exfalso; apply hov
          unfold u32
          have : (p.size + bufferHeaderSize) % W32 = p.size + bufferHeaderSize - W32 := by
            rw [Nat.mod_eq_sub_mod h, Nat.mod_eq_of_lt (by have := hp0.1; unfold bufferHeaderSize at *; omega)]
          rw [this]; have := hp0.1; omega
      have hdiv : u32 (p.size + bufferHeaderSize) = p.size + bufferHeaderSize := u32_of_lt hsz
      rw [hdiv]
      have hdne : ¬ (p.size + bufferHeaderSize = 0) := by unfold bufferHeaderSize; omega
      simp only [hdne, if_false]
      have hRp : R * p.percent ≤ R * 100 := Nat.mul_le_mul_left _ hp0.2
      have hRW : R * 100 < W64 := by unfold W64; unfold W32 at hmem; omega
      have hmod : R * p.percent % W64 = R * p.percent := Nat.mod_eq_of_lt (by omega)
      rw [hmod]
      have hq : R * p.percent / 100 ≤ R := by
        have : R * p.percent / 100 ≤ R * 100 / 100 := Nat.div_le_div_right hRp
        rwa [Nat.mul_div_cancel _ (by omega : 0 < 100)] at this
      rw [u32_of_lt (by omega : R * p.percent / 100 < W32)]
      -- the slots of this class fit into its share of the region
      have hnum : (R * p.percent / 100) / (p.size + bufferHeaderSize) * (p.size + bufferHeaderSize) ≤ R * p.percent / 100 :=
        Nat.div_mul_le_self _ _
      have hsplit : R * p.percent + R * (100 - (sum + p.percent)) = R * (100 - sum) := by
        rw [← Nat.mul_add]; congr 1; omega
      have hfl := floor_add_le (R * p.percent) (R * (100 - (sum + p.percent)))
      rw [hsplit] at hfl
      simp only [List.length_cons] at hfit
      have hfit1 : hadUsed + bufferListHeaderSize +
          (R * p.percent / 100) / (p.size + bufferHeaderSize) * (p.size + bufferHeaderSize) ≤ memLen := by
        unfold bufferListHeaderSize at *; omega
      have hone := createFreeBufferList_fits ((R * p.percent / 100) / (p.size + bufferHeaderSize)) p.size memLen hadUsed hmem hsz hfit1
      cases hc : createFreeBufferList ((R * p.percent / 100) / (p.size + bufferHeaderSize)) p.size memLen hadUsed with
      | err w => simp
      | panic w => rw [hc] at hone; exact hone
      | ok g =>
        rw [hc] at hone
        obtain ⟨g1, g2, g3, g4, g5, g6, g7, g8, g9⟩ := hone
        simp only
        have hprod : (R * p.percent / 100) / (p.size + bufferHeaderSize) * (p.size + bufferHeaderSize) < W32 := by omega
        have hcnt : countBufferListMemSize ((R * p.percent / 100) / (p.size + bufferHeaderSize)) p.size =
            bufferListHeaderSize + (R * p.percent / 100) / (p.size + bufferHeaderSize) * (p.size + bufferHeaderSize) := by
          unfold countBufferListMemSize
          rw [hdiv, u32_of_lt hprod, u32_of_lt (by unfold bufferListHeaderSize at *; omega)]
        rw [hcnt]
        have hnext : u32 (hadUsed + (bufferListHeaderSize + (R * p.percent / 100) / (p.size + bufferHeaderSize) * (p.size + bufferHeaderSize))) =
            g.regionOff + g.regionLen := by
          rw [u32_of_lt (by omega), g2, g3]; omega
        rw [hnext]
        have hrec := ih (g.regionOff + g.regionLen) (sum + p.percent) (acc ++ [g])
          (fun q hq => hp q (List.mem_cons_of_mem _ hq)) (by omega)
          (by rw [g2, g3]; unfold bufferListHeaderSize at *; omega)
        cases hl : createLoop memLen R rest (g.regionOff + g.regionLen) (sum + p.percent) (acc ++ [g]) with
        | err w => trivial
        | panic w => rw [hl] at hrec; exact hrec
        | ok r =>
          rw [hl] at hrec
          obtain ⟨new, e1, e2, e3, e4, e5⟩ := hrec
          refine ⟨g :: new, by rw [e1]; simp, ?_, by simpa [endOf] using e3, by simp [e4, g5], e5⟩
          refine ⟨g1, g2, by rw [g3, g4, g5], by rw [g4]; exact g6, by rw [g5]; exact g7, ?_, g8, by rw [g9, g4, g5], e2⟩
          rw [g2, g3]; omega


theorem intToU64_of_nonneg (x : Nat) (h : x < W64) : intToU64 (x : Int) = x := by
  unfold intToU64
  have : ((x : Int) % (W64 : Int)) = (x : Int) := Int.emod_eq_of_lt (by omega) (by exact_mod_cast h)
  rw [this]; simp

/-- createBufferManager on a sane configuration: never panics; on success the classes are laid out back to back
    behind the 8-byte manager header, inside the mapping -/
theorem createBufferManager_sane (pairs : List Pair) (memLen : Nat) (hs : Sane memLen pairs)
    (hpct : ∀ p ∈ pairs, p.percent ≤ 100) :
    match createBufferManager pairs memLen with
    | .ok m => WellLaid memLen bufferManagerHeaderSize m.lists ∧ m.lists.map (·.capPer) = pairs.map (·.size) ∧
               m.usedLen + bufferManagerHeaderSize = endOf bufferManagerHeaderSize m.lists ∧
               endOf bufferManagerHeaderSize m.lists ≤ memLen ∧ m.listNumField = pairs.length % 65536
    | .err _ => True
    | .panic _ => False := by
  unfold createBufferManager
  have h0 : ¬ memLen ≤ 0 := by have := hs.memPos; omega
  simp only [h0, if_false]
  have hW : W32 < W64 := by unfold W32 W64; omega
  have hheaders := hs.headers
  have hR : intToU64 ((memLen : Int) - 0 - ((bufferListHeaderSize * pairs.length : Nat) : Int) - ((bufferManagerHeaderSize : Nat) : Int))
      = memLen - bufferListHeaderSize * pairs.length - bufferManagerHeaderSize := by
    have : ((memLen : Int) - 0 - ((bufferListHeaderSize * pairs.length : Nat) : Int) - ((bufferManagerHeaderSize : Nat) : Int))
        = ((memLen - bufferListHeaderSize * pairs.length - bufferManagerHeaderSize : Nat) : Int) := by omega
    rw [this]
    exact intToU64_of_nonneg _ (by have := hs.memLt; omega)
  rw [hR]
  have hloop := createLoop_sane memLen (memLen - bufferListHeaderSize * pairs.length - bufferManagerHeaderSize) hs.memLt (by omega)
    pairs bufferManagerHeaderSize 0 [] (fun p hp => ⟨hs.sizes p hp, hpct p hp⟩) (by omega)
    (by simp only [Nat.sub_zero]; rw [Nat.mul_div_cancel _ (by omega : 0 < 100)]; omega)
  cases hl : createLoop memLen (memLen - bufferListHeaderSize * pairs.length - bufferManagerHeaderSize) pairs bufferManagerHeaderSize 0 [] with
  | err w => trivial
  | panic w => rw [hl] at hloop; exact hloop
  | ok r =>
    rw [hl] at hloop
    obtain ⟨new, e1, e2, e3, e4, e5⟩ := hloop
    simp only
    have hne := hs.nonempty
    have hk : 0 < pairs.length := List.length_pos_iff.mpr hne
    have h4 : ¬ memLen ≤ bmCapOffset := by unfold bmCapOffset bufferListHeaderSize bufferManagerHeaderSize at *; omega
    simp only [hne, h4, if_false]
    simp only [List.nil_append] at e1
    subst e1
    refine ⟨e2, e4, ?_, by rw [← e3]; exact e5, trivial⟩
    have hge : bufferManagerHeaderSize ≤ r.2 := by
      rw [e3]
      clear e5 hl e3
      -- endOf never decreases below its start
      have : ∀ (l : List ListGeom) (st : Nat), WellLaid memLen st l → st ≤ endOf st l := by
        intro l
        induction l with
        | nil => intro st _; exact Nat.le_refl _
        | cons g rr ihh =>
          intro st hw
          obtain ⟨a1, a2, a3, a4, a5, a6, a7, a8, a9⟩ := hw
          have := ihh _ a9
          simp only [endOf]; omega
      exact this _ _ e2
    have hlt : r.2 < W32 := by have := hs.memLt; omega
    rw [← e3]
    unfold u32
    have : (r.2 + W32 - bufferManagerHeaderSize) % W32 = r.2 - bufferManagerHeaderSize := by
      have e : r.2 + W32 - bufferManagerHeaderSize = (r.2 - bufferManagerHeaderSize) + W32 := by omega
      rw [e, Nat.add_mod_right, Nat.mod_eq_of_lt (by omega)]
    rw [this]; omega


/-- the mapper, walking the headers the creator wrote, re-derives exactly the creator's geometry -/
theorem mappingLoop_roundtrip (memLen : Nat) (hmem : memLen < W32) :
    ∀ (lists : List ListGeom) (start : Nat) (acc : List ListGeom),
      WellLaid memLen start lists → mappingLoop memLen lists start acc = .ok (acc ++ lists) := by
  intro lists
  induction lists with
  | nil => intro start acc _; simp [mappingLoop]
  | cons g r ih =>
    intro start acc hw
    obtain ⟨a1, a2, a3, a4, a5, a6, a7, a8, a9⟩ := hw
    simp only [mappingLoop, a1, ne_eq, not_true_eq_false, if_false]
    have hstride_le : g.capPer + bufferHeaderSize ≤ g.num * (g.capPer + bufferHeaderSize) :=
      Nat.le_mul_of_pos_left _ a4
    have hcapW : g.capPer + bufferHeaderSize < W32 := by omega
    have hprodW : g.num * (g.capPer + bufferHeaderSize) < W32 := by omega
    have hcnt : countBufferListMemSize g.num g.capPer = bufferListHeaderSize + g.num * (g.capPer + bufferHeaderSize) := by
      unfold countBufferListMemSize
      rw [u32_of_lt hcapW, u32_of_lt hprodW, u32_of_lt (by unfold bufferListHeaderSize at *; omega)]
    unfold mappingFreeBufferList
    rw [hcnt]
    have c1 : ¬ ((memLen : Int) < (bufferListHeaderSize : Int) + start) := by
      have : bufferListHeaderSize + start ≤ memLen := by omega
      omega
    simp only [c1, if_false]
    have e1 : u32 (start + (bufferListHeaderSize + g.num * (g.capPer + bufferHeaderSize))) =
        start + bufferListHeaderSize + g.num * (g.capPer + bufferHeaderSize) := by
      rw [u32_of_lt (by omega)]; omega
    have e2 : u32 memLen = memLen := u32_of_lt hmem
    have e3 : u32 (start + bufferListHeaderSize) = start + bufferListHeaderSize := u32_of_lt (by omega)
    simp only [e1, e2, e3]
    have c2 : ¬ (start + bufferListHeaderSize + g.num * (g.capPer + bufferHeaderSize) > memLen ∨
        start + bufferListHeaderSize + g.num * (g.capPer + bufferHeaderSize) < start + bufferListHeaderSize) := by omega
    simp only [c2, if_false]
    have hg : ({ off := start, num := g.num, capPer := g.capPer, regionOff := start + bufferListHeaderSize,
                 regionLen := start + bufferListHeaderSize + g.num * (g.capPer + bufferHeaderSize) - (start + bufferListHeaderSize),
                 head := g.head, tail := g.tail } : ListGeom) = g := by
      have b1 := a1; have b2 := a2; have b3 := a3
      cases g
      simp only at b1 b2 b3
      simp only [ListGeom.mk.injEq]
      refine ⟨by omega, trivial, trivial, by omega, by omega, trivial, trivial⟩
    rw [hg]
    have := ih (g.regionOff + g.regionLen) (acc ++ [g]) a9
    rw [a2, a3] at this
    rw [this]; simp

theorem mappingBufferManager_roundtrip (pairs : List Pair) (memLen : Nat) (hs : Sane memLen pairs)
    (hpct : ∀ p ∈ pairs, p.percent ≤ 100) (hk : pairs.length < 65536) (m : Mgr)
    (hc : createBufferManager pairs memLen = .ok m) :
    mappingBufferManager m memLen = .ok m.lists := by
  have h := createBufferManager_sane pairs memLen hs hpct
  rw [hc] at h
  obtain ⟨h1, h2, h3, h4, h5⟩ := h
  have hlen : m.lists.length = pairs.length := by
    have := congrArg List.length h2; simpa using this
  have hkpos : 0 < pairs.length := List.length_pos_iff.mpr hs.nonempty
  unfold mappingBufferManager
  have c0 : ¬ memLen ≤ bmCapOffset := by
    have := hs.headers; unfold bmCapOffset bufferListHeaderSize bufferManagerHeaderSize at *; omega
  have c1 : ¬ ((memLen : Int) < (bufferManagerHeaderSize : Int) + m.usedLen ∨ m.listNumField = 0) := by
    rw [h5, Nat.mod_eq_of_lt hk]
    have : bufferManagerHeaderSize + m.usedLen ≤ memLen := by omega
    omega
  simp only [c0, c1, if_false]
  rw [h5, Nat.mod_eq_of_lt hk, ← hlen, List.take_length]
  have := mappingLoop_roundtrip memLen hs.memLt m.lists bufferManagerHeaderSize [] h1
  simpa using this

/-- classes laid out by `WellLaid` occupy pairwise disjoint byte ranges, in order -/
theorem wellLaid_disjoint (memLen : Nat) : ∀ (lists : List ListGeom) (start : Nat), WellLaid memLen start lists →
    ∀ g ∈ lists, start ≤ g.off ∧ g.regionOff + g.regionLen ≤ endOf start lists ∧
      ∀ (i j : Nat) (hi : i < lists.length) (hj : j < lists.length), i < j →
        lists[i].regionOff + lists[i].regionLen ≤ lists[j].off := by
  intro lists
  induction lists with
  | nil => intro _ _ g hg; cases hg
  | cons a r ih =>
    intro start hw g hg
    obtain ⟨a1, a2, a3, a4, a5, a6, a7, a8, a9⟩ := hw
    have hmono : ∀ (l : List ListGeom) (st : Nat), WellLaid memLen st l → st ≤ endOf st l := by
      intro l
      induction l with
      | nil => intro st _; exact Nat.le_refl _
      | cons g rr ihh =>
        intro st hw
        obtain ⟨b1, b2, b3, b4, b5, b6, b7, b8, b9⟩ := hw
        have := ihh _ b9
        simp only [endOf]; omega
    refine ⟨?_, ?_, ?_⟩
    · rcases List.mem_cons.mp hg with rfl | hg'
      · omega
      · have := (ih _ a9 g hg').1; omega
    · rcases List.mem_cons.mp hg with rfl | hg'
      · simp only [endOf]; exact hmono _ _ a9
      · simpa [endOf] using (ih _ a9 g hg').2.1
    · intro i j hi hj hij
      cases j with
      | zero => omega
      | succ j =>
        have hjr : j < r.length := by simpa using hj
        cases i with
        | zero =>
          simp only [List.getElem_cons_zero, List.getElem_cons_succ]
          exact (ih _ a9 r[j] (List.getElem_mem hjr)).1
        | succ i =>
          have hir : i < r.length := by simpa using hi
          simp only [List.getElem_cons_succ]
          exact (ih _ a9 r[j] (List.getElem_mem hjr)).2.2 i j hir hjr (by omega)

/-- slots of one class: inside the region, at slot boundaries, pairwise disjoint -/
theorem slots_disjoint (g : ListGeom) (hlen : g.regionLen = g.num * (g.capPer + bufferHeaderSize)) (i j : Nat)
    (hij : i < j) (hj : j < g.num) :
    slotEnd g i ≤ slotStart g j ∧ g.regionOff ≤ slotStart g i ∧ slotEnd g j ≤ g.regionOff + g.regionLen := by
  unfold slotEnd slotStart
  have h1 : (i + 1) * (g.capPer + bufferHeaderSize) ≤ j * (g.capPer + bufferHeaderSize) := Nat.mul_le_mul_right _ (by omega)
  have h2 : (j + 1) * (g.capPer + bufferHeaderSize) ≤ g.num * (g.capPer + bufferHeaderSize) := Nat.mul_le_mul_right _ (by omega)
  rw [Nat.add_mul, Nat.one_mul] at h1 h2
  rw [hlen]
  refine ⟨by omega, by omega, by omega⟩

/-! ### queues -/

/-- the two ends are cross-wired and the two queues do not overlap, for every capacity whose ring fits in uint32 -/
theorem queue_crosswired (cap : Nat) (hcap : queueHeaderLength + cap * queueElementLen < W32) :
    let c := createQueueManager cap
    let m := mappingQueueManager (countQueueMemSize cap * queueCount) cap cap
    c.send = m.recv ∧ c.recv = m.send ∧
    c.send.ringEnd ≤ c.recv.base ∧ c.recv.ringEnd ≤ countQueueMemSize cap * queueCount ∧
    c.send.ringEnd - c.send.ringOff = cap * queueElementLen := by
  intro c m
  have h1 : u32 (cap * queueElementLen) = cap * queueElementLen := u32_of_lt (by unfold queueHeaderLength at hcap; omega)
  have h2 : u32 (queueHeaderLength + cap * queueElementLen) = queueHeaderLength + cap * queueElementLen := u32_of_lt hcap
  simp only [c, m, createQueueManager, mappingQueueManager, queueFromBytes, countQueueMemSize, queueCount, h1, h2]
  refine ⟨trivial, trivial, ?_, ?_, ?_⟩ <;> (unfold queueHeaderLength queueElementLen at *; omega)

end Layout
