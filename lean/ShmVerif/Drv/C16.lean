import ShmVerif.Model.Restart
import ShmVerif.Drv.Util
/-! Line-protocol driver for the hot-restart / healing model (properties C16, C17). -/
namespace Drv.C16
open Restart

structure DSt where
  l : Listener := {}
  m : Manager := {}

def b (x : Bool) : Nat := if x then 1 else 0

def insertBy {α : Type} (le : α → α → Bool) (x : α) : List α → List α
  | [] => [x]
  | y :: ys => if le x y then x :: y :: ys else y :: insertBy le x ys
def sortBy {α : Type} (le : α → α → Bool) (l : List α) : List α := l.foldr (insertBy le) []

def le2 (a c : Nat × Nat) : Bool := a.1 < c.1 || (a.1 == c.1 && a.2 ≤ c.2)

def pairs (l : List (Nat × Nat)) : String := Drv.joinWith ";" (l.map (fun p => s!"{p.1}:{p.2}"))

def lsnap (l : Listener) : String :=
  s!"L st={l.state.num} ep={l.epoch} cnt={l.ackCount} chk={b l.checker} sess={Drv.joinWith ";" (l.sess.map (fun s => s!"{s.uid}:{s.state.num}:{b s.hsDone}"))} sent={pairs (sortBy le2 l.sent)} ok={l.okCount} fail={l.failCount}"

def wPc : WPc → String
  | .start => "start" | .sleep => "sleep" | .sel _ => "sel" | .timer _ => "timer" | .done => "done"

def msnap (m : Manager) : String :=
  s!"M st={m.state.num} ep={m.epoch} chk={b m.checker} can={b m.cancelled} cl={b m.closed} pools={Drv.joinWith "," (m.pools.map toString)} reserve={pairs (sortBy le2 m.reserve)} objs={Drv.joinWith ";" (m.objs.map (fun o => s!"{o.sess}:{o.epoch}:{b o.alive}"))} w={Drv.joinWith "," (m.watchers.map wPc)} acks={pairs (sortBy le2 m.acks)} created={Drv.joinWith ";" (m.created.map (fun c => s!"{c.1}:{c.2.1}:{c.2.2}"))}"

def lres : LRes → String
  | .ok => "ok" | .inProgress => "in-progress" | .inHandshake => "in-handshake" | .noop => "noop"

def step (d : DSt) (line : String) : DSt × String :=
  match Drv.words line with
  | ["l", "add", hs] => let l := d.l.add (hs = "1"); ({ d with l }, lsnap l)
  | ["l", "hs", u] => let l := d.l.hsDone (Drv.nat! u); ({ d with l }, lsnap l)
  | ["l", "drop", u] => let l := d.l.drop (Drv.nat! u); ({ d with l }, lsnap l)
  | ["l", "hot", e] => let (l, r) := d.l.hotRestart (Drv.nat! e); ({ d with l }, lres r ++ " " ++ lsnap l)
  | ["l", "ack", u, e] => let l := d.l.ack (Drv.nat! u) (Drv.nat! e); ({ d with l }, lsnap l)
  | ["l", "tick"] => let l := d.l.tick; ({ d with l }, lsnap l)
  | ["l", "timeout"] => let l := d.l.timeout; ({ d with l }, lsnap l)
  | ["m", "init", n] => let m := Manager.init (Drv.nat! n); ({ d with m }, msnap m)
  | ["m", "hot", id, e, c] => let m := d.m.hotRestart (Drv.nat! id) (Drv.nat! e) (c = "1"); ({ d with m }, msnap m)
  | ["m", "tick"] => let m := d.m.tick; ({ d with m }, msnap m)
  | ["m", "timeout"] => let m := d.m.timeout; ({ d with m }, msnap m)
  | ["m", "lose", o] => let m := d.m.lose (Drv.nat! o); ({ d with m }, msnap m)
  | ["m", "w", id, f, c] => let m := d.m.watch (Drv.nat! id) (f = "1") (c = "1"); ({ d with m }, msnap m)
  | ["m", "w", id, f, c, pick] => let m := d.m.watch (Drv.nat! id) (f = "1") (c = "1") (pick = "ctx"); ({ d with m }, msnap m)
  | ["m", "cancel"] => let m := d.m.cancel; ({ d with m }, msnap m)
  | ["m", "close"] => let m := d.m.finishClose; ({ d with m }, msnap m)
  | _ => (d, "bad-op")

end Drv.C16
