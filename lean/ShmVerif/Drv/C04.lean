import ShmVerif.Model.QueueC
import ShmVerif.Drv.Util
/-! Line-protocol driver for the access-granular queue model (property C04). -/
namespace Drv.C04
open QueueC

structure St where
  cap : Nat := 0
  base : Nat := 0
  prods : List (List Elem) := []
  pops : Nat := 0
  s : Option State := none

def parseElem (w : String) : Elem :=
  match Drv.natsOf w "." with
  | [a, b, c] => { seq := a, off := b, st := c }
  | _ => default

def showElem (e : Elem) : String := s!"{e.seq}.{e.off}.{e.st}"

def showRes : Res → String
  | .ok => "ok" | .full => "full" | .empty => "empty" | .got e => "got:" ++ showElem e

def snap (s : State) : String :=
  s!"h={s.head} t={s.tail} ring={Drv.joinWith "," (s.ring.map showElem)}"

def get (d : St) : State := d.s.getD (QueueC.init d.cap d.base d.prods d.pops)

def firstProd (ps : List (List Elem)) (i : Nat := 0) : Option Nat :=
  match ps with
  | [] => none
  | (_ :: _) :: _ => some i
  | [] :: r => firstProd r (i + 1)

def finish : Nat → State → State
  | 0, s => s
  | f + 1, s =>
    match s.crit with
    | some c => finish f (stepProd s c.tid).1
    | none =>
      match firstProd s.prods with
      | some t => finish f (stepProd s t).1
      | none => if s.pops > 0 then finish f (stepCons s).1 else s

def step (d : St) (line : String) : St × String :=
  match Drv.words line with
  | ["init", c, b] => ({ cap := Drv.nat! c, base := Drv.nat! b }, "ok")
  | "prod" :: es => ({ d with prods := d.prods ++ [es.map parseElem] }, "ok")
  | ["cons", n] => ({ d with pops := Drv.nat! n }, "ok")
  | ["step", w] =>
    let s := get d
    let (s', lab) := if w = "c" then stepCons s else stepProd s (Drv.nat! w)
    ({ d with s := some s' }, s!"{lab} {snap s'}")
  | ["finish"] =>
    let s := finish 100000 (get d)
    let pr := s.pres.map (fun (t, r) => s!"{t}:{showRes r}")
    ({ d with s := some s },
      s!"pres={Drv.joinWith "," pr} cres={Drv.joinWith "," (s.cres.map showRes)} {snap s}")
  | _ => (d, "bad-op")

end Drv.C04
