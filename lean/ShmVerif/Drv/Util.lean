/-! Small parsing/printing helpers shared by the line-protocol drivers (core only). -/
namespace Drv

def words (l : String) : List String :=
  (l.splitOn " ").filter (· ≠ "")

def nat! (s : String) : Nat := s.toNat?.getD 0

def int! (s : String) : Int := s.toInt?.getD 0

def joinWith (sep : String) (xs : List String) : String := sep.intercalate xs

def natsOf (s : String) (sep : String := ",") : List Nat :=
  ((s.splitOn sep).filter (· ≠ "")).map nat!

end Drv
