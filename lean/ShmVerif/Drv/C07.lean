import ShmVerif.Model.Proto
import ShmVerif.Model.Mux
import ShmVerif.Model.Pool
import ShmVerif.Drv.C06
/-! Line-protocol driver for the two-session protocol model (properties C07, C09, C10). -/
namespace Drv.C07
open LB Proto

structure St where
  s : Proto.Sys := { m := Mem.create [] }
  mux : Mux.Sys := {}
  pool : Proto.PoolSt := { cap := 0 }
  heldP : List Nat := []
  muxOff : Bool := false
  dead : Bool := false

def mside (x : String) : Mux.Side := if x = "a" then .a else .b

def stNumP (st : PStream) : Nat := st.state.num
def stNumM (st : Mux.MStream) : Nat := match st.state with | .opened => 0 | .closed => 1 | .half => 2

/-- the observables `Proto` and its message-level abstraction `Mux` must agree on -/
def obsP (s : Proto.Sys) : List Nat :=
  [s.a.table.length, s.b.table.length, s.qab.length, s.qba.length, s.kab.length, s.kba.length,
   (if s.fab then 1 else 0), (if s.fba then 1 else 0)] ++
  s.a.streams.flatMap (fun st => [st.id, stNumP st, if st.inFallback then 1 else 0]) ++ [9999] ++
  s.b.streams.flatMap (fun st => [st.id, stNumP st, if st.inFallback then 1 else 0])

def obsM (s : Mux.Sys) : List Nat :=
  [(s.ends .a).table.length, (s.ends .b).table.length, (s.ch .a).q.length, (s.ch .b).q.length, (s.ch .a).k.length, (s.ch .b).k.length,
   (if (s.ch .a).flag then 1 else 0), (if (s.ch .b).flag then 1 else 0)] ++
  (s.ends .a).streams.flatMap (fun st => [st.id, stNumM st, if st.inFb then 1 else 0]) ++ [9999] ++
  (s.ends .b).streams.flatMap (fun st => [st.id, stNumM st, if st.inFb then 1 else 0])

def muxCheck (d : St) (out : String) : St × String :=
  if d.muxOff ∨ obsP d.s = obsM d.mux then (d, out) else (d, out ++ " MUXDIFF")

def side (x : String) : Side := if x = "a" then .a else .b

def stNum (st : PStream) : Nat := st.state.num

def suffix (s : Proto.Sys) (x : Side) (id : Nat) : String :=
  let st := ((s.me x).find id).getD { id := 0 }
  s!" st={stNum st} len={st.recv.len} free={Drv.C06.freeStr s.m} act={s.a.table.length},{s.b.table.length} q={s.qab.length},{s.qba.length} k={s.kab.length},{s.kba.length}"

def gsuffix (s : Proto.Sys) : String :=
  s!" free={Drv.C06.freeStr s.m} act={s.a.table.length},{s.b.table.length} q={s.qab.length},{s.qba.length} k={s.kab.length},{s.kba.length}"

def resStr : Res → String
  | .ok => "ok" | .noop => "noop" | .closed => "closed" | .timeout => "timeout" | .eos => "eos" | .panic => "panic"
  | .shm => "shm" | .fallback => "fallback" | .missing => "missing"

def setStream (s : Proto.Sys) (x : Side) (id : Nat) (f : PStream → PStream) : Proto.Sys := s.setMe x ((s.me x).upd id f)

/-- Stream.readMore(n) with an expired read deadline on open streams and no deadline otherwise -/
def readMore (s : Proto.Sys) (x : Side) (id : Nat) (n : Nat) : Option (Proto.Sys × Res) :=
  match (s.me x).find id with
  | none => some (s, .missing)
  | some st =>
    if st.recv.len ≥ n then some (s, .ok) else
    let sm : StreamM := { send := st.send, recv := st.recv, pending := st.pending, inFallback := st.inFallback }
    match moveTo s.m sm with
    | none => none
    | some (m', sm') =>
      let s' := setStream { s with m := m' } x id (fun y => { y with recv := sm'.recv, pending := sm'.pending, inFallback := sm'.inFallback })
      if sm'.recv.len ≥ n then some (s', .ok)
      else if sm'.recv.len = 0 ∧ st.state ≠ .opened then some (s', .eos)
      else match st.state with
        | .opened => some (s', .timeout)
        | .halfClosed => some (s', .eos)
        | .closed => some (s', .closed)

def panic (d : St) : St × String := ({ d with dead := true }, "panic")

def readerOp (d0 : St) (x : Side) (id n : Nat) (f : Mem → LBuf → Option (Mem × LBuf × String)) : St × String :=
  let movedNow := match (d0.s.me x).find id with | some st => decide (st.recv.len < n) | none => false
  let d := if movedNow then { d0 with mux := Mux.moved d0.mux (match x with | .a => .a | .b => .b) id } else d0
  match readMore d.s x id n with
  | none => panic d
  | some (s1, .ok) =>
    match (s1.me x).find id with
    | none => (d, "missing")
    | some st =>
      match f s1.m st.recv with
      | none => panic d
      | some (m', r', out) =>
        let s2 := setStream { s1 with m := m' } x id (fun y => { y with recv := r' })
        ({ d with s := s2 }, out ++ suffix s2 x id)
  | some (_, .missing) => (d, "missing")
  | some (s1, r) => ({ d with s := s1 }, resStr r ++ suffix s1 x id)

def writerOp (d : St) (x : Side) (id : Nat) (f : Mem → LBuf → Option (Mem × LBuf)) : St × String :=
  match (d.s.me x).find id with
  | none => (d, "missing")
  | some st =>
    match f d.s.m st.send with
    | none => panic d
    | some (m', l') =>
      let s' := setStream { d.s with m := m' } x id (fun y => { y with send := l' })
      ({ d with s := s' }, s!"ok wlen={l'.len}" ++ suffix s' x id)

def step0 (d : St) (line : String) : St × String :=
  match Drv.words line with
  | "init" :: qc :: cls =>
    ({ s := { m := Mem.create (cls.map Drv.C06.parseCls), qcap := Drv.nat! qc, held := cls.map (fun _ => []) },
       mux := { qcap := Drv.nat! qc } }, "ok")
  | ["open", x] =>
    let (s', id) := openStream d.s (side x)
    muxCheck { d with s := s', mux := (Mux.openStream d.mux (mside x)).1 } (s!"ok {id}" ++ gsuffix s')
  | ["wb", x, id, h] => writerOp d (side x) (Drv.nat! id) (fun m l => l.writeBytes m (Drv.C06.unhex h))
  | ["rsv", x, id, h] => writerOp d (side x) (Drv.nat! id) (fun m l => l.reserve m (Drv.C06.unhex h))
  | ["wbyte", x, id, b] => writerOp d (side x) (Drv.nat! id) (fun m l => l.writeByte m (Drv.nat! b))
  | ["flush", x, id] =>
    let (s', r) := flush d.s (side x) (Drv.nat! id)
    if r = .panic then panic d else if r = .missing then (d, "missing") else
    let mux' := if r = .noop then d.mux else (Mux.flush d.mux (mside x) (Drv.nat! id) (decide (r = .fallback))).1
    muxCheck { d with s := s', mux := mux' } (resStr r ++ suffix s' (side x) (Drv.nat! id))
  | ["close", x, id] =>
    let (s', r) := closeStream d.s (side x) (Drv.nat! id)
    if r = .missing then (d, "missing") else
    muxCheck { d with s := s', mux := (Mux.closeStream d.mux (mside x) (Drv.nat! id)).1 } (resStr r ++ suffix s' (side x) (Drv.nat! id))
  | ["deliver", x] =>
    let (s', r) := deliver d.s (side x)
    muxCheck { d with s := s', mux := (Mux.deliver d.mux (mside x)).1 } (resStr r ++ gsuffix s')
  | ["rb", x, id, n] =>
    readerOp d (side x) (Drv.nat! id) (Drv.nat! n) (fun m l => (l.readBytes m (Drv.nat! n)).map (fun (m', l', o) => (m', l', "ok " ++ Drv.C06.hex o)))
  | ["pk", x, id, n] =>
    readerOp d (side x) (Drv.nat! id) (Drv.nat! n) (fun m l => (l.peekBytes m (Drv.nat! n)).map (fun (l', o) => (m, l', "ok " ++ Drv.C06.hex o)))
  | ["dc", x, id, n] =>
    readerOp d (side x) (Drv.nat! id) (Drv.nat! n) (fun m l => (l.discard m (Drv.nat! n)).map (fun (m', l', k) => (m', l', s!"ok {k}")))
  | ["rd", x, id, n] =>
    if Drv.nat! n = 0 then (d, "ok " ++ suffix d.s (side x) (Drv.nat! id)) else
    readerOp d (side x) (Drv.nat! id) 1 (fun m l => (l.readInto m (Drv.nat! n)).map (fun (m', l', o) => (m', l', "ok " ++ Drv.C06.hex o)))
  | ["rel", x, id] =>
    match (d.s.me (side x)).find (Drv.nat! id) with
    | none => (d, "missing")
    | some st =>
      let (m', r') := st.recv.release d.s.m
      let s' := setStream { d.s with m := m' } (side x) (Drv.nat! id) (fun y => { y with recv := r' })
      ({ d with s := s' }, "ok" ++ suffix s' (side x) (Drv.nat! id))
  | ["reuse", x, id] =>
    -- Stream.ReleaseReadAndReuse: release what was read; an entirely consumed single-slice read buffer becomes the send buffer
    match (d.s.me (side x)).find (Drv.nat! id) with
    | none => (d, "missing")
    | some st =>
      let sm : StreamM := { send := st.send, recv := st.recv, pending := st.pending, inFallback := st.inFallback }
      let (m', sm') := reuse d.s.m sm
      let s' := setStream { d.s with m := m' } (side x) (Drv.nat! id) (fun y => { y with send := sm'.send, recv := sm'.recv })
      ({ d with s := s' }, "ok" ++ suffix s' (side x) (Drv.nat! id))
  | ["take", c, k] =>
    let ci := Drv.nat! c
    let rec go (n : Nat) (m : Mem) (acc : List BS) : Mem × List BS :=
      match n with
      | 0 => (m, acc)
      | n + 1 => match m.pop ci with
        | some (m', b) => go n m' (acc ++ [b])
        | none => (m, acc)
    let (m', got) := go (Drv.nat! k) d.s.m []
    let s' := { d.s with m := m', held := d.s.held.modify ci (· ++ got) }
    ({ d with s := s' }, s!"ok {got.length}" ++ gsuffix s')
  | ["give", c, k] =>
    let ci := Drv.nat! c
    let h := d.s.held.getD ci []
    let back := h.take (Drv.nat! k)
    let m' := back.foldl (fun m b => m.recycle b) d.s.m
    let s' := { d.s with m := m', held := d.s.held.modify ci (fun l => l.drop (Drv.nat! k)) }
    ({ d with s := s' }, s!"ok {back.length}" ++ gsuffix s')
  | ["pool", c] => ({ d with pool := { cap := Drv.nat! c }, muxOff := true }, "ok")
  | ["pool", c, _age] => ({ d with pool := { cap := Drv.nat! c }, muxOff := true }, "ok")   -- ring counters are unbounded here
  | ["pget"] =>
    let (s', p', id) := poolGet (d.pool.ring.length + 1) d.s d.pool
    ({ d with s := s', pool := p', heldP := d.heldP ++ [id] }, s!"ok {id} pooled={p'.ring.length}" ++ gsuffix s')
  | ["pput", id] =>
    if (d.s.a.find (Drv.nat! id)).isNone then (d, "missing") else
    if !d.heldP.contains (Drv.nat! id) then (d, "notheld") else
    let (s', p', r) := poolPut d.s d.pool (Drv.nat! id)
    ({ d with s := s', pool := p', heldP := d.heldP.filter (· ≠ Drv.nat! id) }, s!"{r} pooled={p'.ring.length}" ++ gsuffix s')
  | _ => (d, "bad-op")

def step1 (d : St) (line : String) : St × String :=
  match Drv.words line with
  | ["flushd", x, id] =>
    -- a Flush that meets a full queue and retries while the peer drains it: the peer handles everything `x` wrote, then
    -- the retried put goes through like an ordinary flush. (If the flush would not meet a full queue: an ordinary flush.)
    let (_, r0) := flush d.s (side x) (Drv.nat! id)
    let peer := if x = "a" then "b" else "a"
    let d1 := if r0 = .timeout then
        (List.range (d.mux.ch (mside x)).k.length).foldl (fun acc _ => (step0 acc s!"deliver {peer}").1) d
      else d
    step0 d1 s!"flush {x} {id}"
  | _ => step0 d line

def step (d : St) (line : String) : St × String :=
  if d.dead then (d, "dead") else
  match Drv.words line with
  | op :: "a" :: id :: _ =>
    if op ≠ "pput" ∧ d.pool.ring.contains (Drv.nat! id) then (d, "inpool") else step1 d line
  | _ => step1 d line

end Drv.C07
