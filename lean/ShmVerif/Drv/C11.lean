import ShmVerif.Model.ReadWait
import ShmVerif.Drv.Util
/-! Line-protocol driver for the blocking-read model (property C11). -/
namespace Drv.C11
open ReadWait

structure DSt where
  s : State := {}

def b (x : Bool) : Nat := if x then 1 else 0
def stNum : St → Nat | .opened => 0 | .closed => 1 | .half => 2

def rPc : RPc → String
  | .idle => "idle" | .start _ => "start" | .chkOpen _ => "chkOpen" | .sel _ => "sel" | .closeChk _ => "closeChk"
  | .done .ok => "done:ok" | .done .eos => "done:eos" | .done .closedErr => "done:closed" | .done .timeout => "done:timeout"

def snap (s : State) : String :=
  s!"st={stNum s.state} pend={s.pending} recv={s.recv} tok={b s.token} cl={b s.closeCh} r={rPc s.r} w={match s.w with | .idle => "idle" | .loaded => "loaded"}"

def parsePick (w : String) : Option Pick :=
  if w = "tok" then some .tok else if w = "close" then some .close else if w = "timer" then some .timer else none

def step (d : DSt) (line : String) : DSt × String :=
  match Drv.words line with
  | ["read", m, dl] =>
    let m := Drv.nat! m
    if m < 1 ∨ m > 200 then (d, "bad-op") else
    let s := startRead d.s m (dl = "1"); ({ s }, snap s)
  | ["r", p] =>
    match parsePick p with
    | some pk => let s := stepR d.s pk; ({ s }, snap s)
    | none => (d, "bad-op")
  | ["w", n] =>
    let n := Drv.nat! n
    if n < 1 ∨ n > 64 then (d, "bad-op") else
    let s := stepW d.s n; ({ s }, snap s)
  | ["pclose"] => let s := peerClose d.s; ({ s }, snap s)
  | ["lclose"] => let s := localClose d.s; ({ s }, snap s)
  | ["sclose"] => let s := sessionClose d.s; ({ s }, snap s)
  | _ => (d, "bad-op")

end Drv.C11
