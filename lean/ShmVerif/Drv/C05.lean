import ShmVerif.Model.Wake
import ShmVerif.Drv.Util
/-! Line-protocol driver for the wake-up model (property C05). -/
namespace Drv.C05
open Wake

structure St where
  s : State := Wake.init 0 []

def snap (s : State) : String :=
  s!"qlen={s.qlen} flag={if s.flag then 1 else 0} writing={if s.writing then 1 else 0} inflight={s.inflight} consumed={s.consumed} events={s.events} fulls={s.fulls}"

/-- deterministic completion: producers in order, then the consumer until idle with nothing in flight -/
def finish : Nat → State → State
  | 0, s => s
  | f + 1, s =>
    match s.prods.findIdx? (fun p => p.pc ≠ .done) with
    | some t => finish f (stepProd s t).1
    | none => if s.cons = .idle ∧ s.inflight = 0 then s else finish f (stepCons s).1

def step (d : St) (line : String) : St × String :=
  match Drv.words line with
  | "init" :: c :: counts => ({ s := Wake.init (Drv.nat! c) (counts.map Drv.nat!) }, "ok")
  | ["step", w] =>
    let (s', lab) := if w = "c" then stepCons d.s else stepProd d.s (Drv.nat! w)
    ({ s := s' }, s!"{lab} {snap s'}")
  | ["finish"] =>
    let s := finish 1000000 d.s
    ({ s := s }, s!"done {snap s}")
  | _ => (d, "bad-op")

end Drv.C05
