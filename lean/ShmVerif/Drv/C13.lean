import ShmVerif.Model.Events
import ShmVerif.Drv.Util
/-! Line-protocol driver for the event parser model (property C13). -/
namespace Drv.C13
open Events

structure St where
  cfg : Cfg := { isServer := true, hasManager := false, hasListener := false }
  c : Conn := {}

def hexVal (ch : Char) : Nat :=
  if ch.isDigit then ch.toNat - '0'.toNat
  else if 'a' ≤ ch ∧ ch ≤ 'f' then ch.toNat - 'a'.toNat + 10
  else if 'A' ≤ ch ∧ ch ≤ 'F' then ch.toNat - 'A'.toNat + 10 else 0

def parseHex : List Char → List Nat
  | a :: b :: r => (hexVal a * 16 + hexVal b) :: parseHex r
  | _ => []

def hexDigit (n : Nat) : Char := if n < 10 then Char.ofNat (n + '0'.toNat) else Char.ofNat (n - 10 + 'a'.toNat)
def toHex (l : List Nat) : String := String.ofList (l.flatMap (fun b => [hexDigit (b / 16), hexDigit (b % 16)]))

def showStream (x : Stream) : String :=
  s!"{x.id}:{match x.state with | .opened => 0 | .halfClosed => 2}:{Drv.joinWith "|" (x.pending.map toHex)}"

def insertSorted (x : Stream) : List Stream → List Stream
  | [] => [x]
  | y :: r => if x.id ≤ y.id then x :: y :: r else y :: insertSorted x r

def summary (c : Conn) : String :=
  let ss := c.sess.streams.foldl (fun acc x => insertSorted x acc) []
  s!"closed={if c.closed then 1 else 0} win={c.win.length} polls={c.sess.polls} posts={c.sess.posts} acks={c.sess.acks} streams={Drv.joinWith "," (ss.map showStream)}"

def step (d : St) (line : String) : St × String :=
  match Drv.words line with
  | ["cfg", a, b, c, e] =>
    ({ cfg := { isServer := a = "1", hasManager := b = "1", hasListener := c = "1", listenerEpoch := Drv.nat! e }, c := {} }, "ok")
  | ["honest"] => (d, "ok")     -- marker of the generator: only complete events were sent (the harness checks that nothing waits)
  | ["feed", h] =>
    let c' := feed d.cfg d.c (parseHex h.toList)
    ({ d with c := c' }, summary c')
  | ["feed"] =>
    let c' := feed d.cfg d.c []
    ({ d with c := c' }, summary c')
  | ["meta", h] =>
    match extractShmMetadata (parseHex h.toList) with
    | some (b, q) => (d, s!"ok b={toHex b} q={toHex q}")
    | none => (d, "err")
  | ["meta"] => (d, match extractShmMetadata [] with | some _ => "ok" | none => "err")
  | _ => (d, "bad-op")

end Drv.C13
