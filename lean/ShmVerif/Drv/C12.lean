import ShmVerif.Model.Handshake
import ShmVerif.Drv.Util
/-! Line-protocol driver for the handshake model (property C12). -/
namespace Drv.C12
open Handshake

def parseMsg (w : String) : Option Msg :=
  match w.splitOn ":" with
  | ["exver", v] => some (.exVer (Drv.nat! v))
  | ["mfile", v, g] => some (.metaFile (Drv.nat! v) 7 (g = "1"))          -- g = 0: nothing mappable, 2: only the queue
  | ["mmemfd", v] => some (.metaMemfd (Drv.nat! v) 7)
  | ["mmemfdx", v] => some (.metaMemfd (Drv.nat! v) 7)
  | ["ackfd"] => some .ackReadyFd
  | ["fds", g] => some (.fds 7 (g = "1"))                                 -- g = 0: nothing mappable, 2: only the queue
  | ["ackshm"] => some .ackShm
  | ["other", ty, v] => some (.other (Drv.nat! ty) (Drv.nat! v))
  | _ => none

def showMsg : Msg → String
  | .exVer v => s!"exver:{v}"
  | .metaFile v _ _ => s!"mfile:{v}:1"
  | .metaMemfd v _ => s!"mmemfd:{v}"
  | .ackReadyFd => "ackfd"
  | .fds _ _ => "fds:1"
  | .ackShm => "ackshm"
  | .other ty v => s!"other:{ty}:{v}"

def errName : Err → String
  | .eof => "eof" | .timeout => "timeout" | .proto => "proto" | .version => "version" | .mapping => "mapping"

def showRes (role : String) (r : Result) : String :=
  match r.res with
  | none => s!"{role}=ok:{r.version}"
  | some e => s!"{role}={errName e}"

def parseTail (w : String) : Option Tail :=
  if w = "eof" then some .eof else if w = "silent" then some .silent else if w = "deaf" then some .deaf else none

def parseMem (w : String) : Option Mem :=
  if w = "file" then some .file else if w = "memfd" then some .memfd else none

/-- a message that arrives only in part never completes: for the reader the input ends there -/
def isPart (w : String) : Bool := w.startsWith "part:" || w.startsWith "partb:"

def parseMsgs (ws : List String) : Option (List Msg) := (ws.takeWhile (fun w => !isPart w)).mapM parseMsg

def step (d : Unit) (line : String) : Unit × String :=
  match Drv.words line with
  | ["pair", mt] =>
    match parseMem mt with
    | some m =>
      let (c, s) := pair m 1
      let same := c.res.isNone && s.res.isNone && c.mapped == s.mapped
      (d, s!"{showRes "c" c} {showRes "s" s} same={if same then 1 else 0}")
    | none => (d, "bad-op")
  | ["cliq", "file"] =>
    -- the client cannot create its queue (the file is already there): establishment fails before anything is sent
    (d, "c=init-error sent=")
  | "srv" :: t :: ms0 =>
    -- where the server waits for the DESCRIPTORS (recvmsg, after the memfd metadata) a few plain bytes are a complete, wrong
    -- answer (no control message), not the beginning of an event header
    let ms := match ms0 with
      | a :: b :: c :: _ => if a = "exver:3" && (b = "mmemfd:3" || b = "mmemfdx:3") && c.startsWith "part:" then [a, b, "other:99:3"] else ms0
      | _ => ms0
    if t = "deaf" && ms0.any isPart then (d, "bad-op") else
    -- a truncated metadata body only where the server is about to read a metadata message
    if (ms.zipIdx.any (fun (w, i) => w.startsWith "partb:" && !(i == 1 && ms.head? == some "exver:3"))) then (d, "bad-op") else
    match parseTail t, parseMsgs ms with
    | some tl, some msgs =>
      let r := server msgs tl
      (d, s!"{showRes "s" r} sent={Drv.joinWith "," (r.sent.map showMsg)}")
    | _, _ => (d, "bad-op")
  | "cli" :: mt :: t :: ms =>
    if ms.any (fun w => w.startsWith "partb:") then (d, "bad-op") else
    match parseMem mt, parseTail t, parseMsgs ms with
    | some _, some .deaf, some _ => (d, "bad-op")      -- the scripted server is never deaf
    | some m, some tl, some msgs =>
      let r := client m 1 msgs tl
      (d, s!"{showRes "c" r} sent={Drv.joinWith "," (r.sent.map showMsg)}")
    | _, _, _ => (d, "bad-op")
  | _ => (d, "bad-op")

end Drv.C12
