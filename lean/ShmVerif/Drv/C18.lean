import ShmVerif.Model.EventConn
import ShmVerif.Drv.Util
/-! Line-protocol driver for the event-connection model (property C18). -/
namespace Drv.C18
open EventConn

structure St where
  r : RState := { buf := [] }
  rpos : Nat := 0          -- next position of the inbound stream
  wpos : Nat := 0          -- next position of the outbound data generator
  ws : WState := {}

def rbyte (p : Nat) : Nat := (p * 7 + 3) % 251
def wbyte (p : Nat) : Nat := (p * 5 + 1) % 241

def hashOf (l : List Nat) : Nat := l.foldl (fun a x => (a * 131 + x + 1) % 1000003) 7
def showW (l : List Nat) : String := s!"{l.length}:{hashOf l}"

def genR (from_ n : Nat) : List Nat := (List.range n).map (fun i => rbyte (from_ + i))
def genW (from_ n : Nat) : List Nat := (List.range n).map (fun i => wbyte (from_ + i))

/-- parse read tokens, generating the data from the inbound stream position (a read can deliver at most `room` bytes, but
    the stream position only advances by what is actually delivered: handled by delivering lazily below) -/
inductive RTok where | e | z | d (n : Nat)

def parseR (w : String) : RTok :=
  if w = "e" then .e else if w = "z" then .z else .d (Drv.nat! (w.drop 1).toString)

-- `m`: EAGAIN whose wake-up arrives merged with a read event - for the writer the same as `e`
def parseW (w : String) : KWrite := if w = "e" || w = "m" then .eagain else .n (Drv.nat! w)

/-- onReadReady with lazily generated data: mirrors EventConn.onReadReady but draws bytes from the stream position -/
def ready (cfg : RCfg) : Nat → RState → Nat → List RTok → List Nat → List (List Nat) → RState × Nat × List (List Nat) × Bool
  | 0, s, pos, _, _, shown => (s, pos, shown, false)
  | f + 1, s, pos, toks, cons, shown =>
    let s1 := maybeExpand s
    let finish (closed : Bool) :=
      let w := window s1
      let k := min (cons.headD 0) w.length
      (commitRead cfg s1 k, pos, shown ++ [w], closed)
    match toks with
    | [] => finish false
    | .e :: _ => finish false
    | .z :: _ => finish true
    | .d n :: r =>
      let k := min n (s1.buf.length - s1.end_)
      let d := genR pos k
      let s2 := { s1 with buf := writeAt s1.buf s1.end_ d, end_ := s1.end_ + d.length }
      if s2.end_ - s2.start ≥ cfg.onDataThreshold then
        let w := window s2
        let c := min (cons.headD 0) w.length
        ready cfg f (commitRead cfg s2 c) (pos + k) r cons.tail (shown ++ [w])
      else ready cfg f s2 (pos + k) r cons shown

def splitBar (ws : List String) : List String × List String :=
  (ws.takeWhile (· ≠ "|"), (ws.dropWhile (· ≠ "|")).drop 1)

/-- what the kernel reports after an EAGAIN: `e` write-ready alone, `m` write-ready merged with read-ready -/
def evOf (w : String) : Events := if w = "m" then { in_ := true, out := true } else { out := true }

/-- the kernel answers the writer gets to see: it goes on past an EAGAIN only if `handleEvent` posts the write-ready token -/
def reachable : List String → List String
  | [] => []
  | w :: r =>
    if (w = "e" || w = "m") && !(handleEvent (evOf w)).contains .writeReady then [w] else w :: reachable r

/-- a write-ready event that arrives merged with a read-ready event (`m` among the kernel answers the writer got to):
    handleEvent also runs onReadReady, whose read finds nothing - it may still grow a full buffer and shows the window -/
def mergedRead (d : St) (res : List String) (calls : Nat) : St :=
  if (res.take calls).any (fun w => (w = "e" || w = "m") && (handleEvent (evOf w)).contains .readReady) then
    let r0 := if d.r.buf.isEmpty then { d.r with buf := List.replicate 16 0 } else d.r
    let (s', pos', _, _) := ready {} 3 r0 d.rpos [.e] [] []
    { d with r := s', rpos := pos' }
  else d

def step (d : St) (line : String) : St × String :=
  match Drv.words line with
  | ["rinit", c] => ({ d with r := { buf := List.replicate (Drv.nat! c) 0 }, rpos := 0 }, "ok")
  | "ready" :: rest =>
    let (rt, ct) := splitBar rest
    let (s', pos', shown, closed) := ready {} (rt.length + 2) d.r d.rpos (rt.map parseR) (ct.map Drv.nat!) []
    ({ d with r := s', rpos := pos' },
      s!"shown={Drv.joinWith "," (shown.map showW)} start={s'.start} end={s'.end_} cap={s'.buf.length} closed={if closed then 1 else 0}")
  | "write" :: n :: res =>
    let data := genW d.wpos (Drv.nat! n)
    let (acc, calls, ok) := EventConn.write (res.length + 2) data ((reachable res).map parseW) [] 0
    (mergedRead { d with wpos := d.wpos + Drv.nat! n } res calls, s!"acc={showW acc} calls={calls} done={if ok then 1 else 0}")
  | "writev" :: sizes :: res =>
    let ns := Drv.natsOf sizes
    let (data, p) := ns.foldl (fun (acc : List (List Nat) × Nat) n => (acc.1 ++ [genW acc.2 n], acc.2 + n)) ([], d.wpos)
    let (acc, calls, ok) := EventConn.writev (data.length + 2) data ((reachable res).map parseW) [] 0
    (mergedRead { d with wpos := p } res calls, s!"acc={showW acc} calls={calls} done={if ok then 1 else 0}")
  | _ => (d, "bad-op")

end Drv.C18
