import ShmVerif.Model.Lifecycle
import ShmVerif.Drv.Util
/-! Line-protocol driver for the session-lifecycle model (property C14). -/
namespace Drv.C14
open Lifecycle

structure DSt where
  s : Sys := {}

def b (x : Bool) : Nat := if x then 1 else 0

def snap (s : Sys) : String :=
  s!"sess={Drv.joinWith ";" (s.sess.map (fun x => s!"{b x.shutdown}:{b x.posted}:{b x.cleaned}:{x.streams}:{b x.connOpen}:{b x.queueMapped}:{x.notified}:{b x.opening}"))} refs={s.refs 0},{s.refs 1}"

def ores : OpenRes → String
  | .ok => "ok " | .closed => "closed " | .noop => "noop "

def step (d : DSt) (line : String) : DSt × String :=
  match Drv.words line with
  | ["new", p] =>
    let p := Drv.nat! p
    if p > 1 ∨ d.s.sess.length ≥ 6 then (d, "bad-op") else
    let s := newSess d.s p; ({ s }, snap s)
  | ["close", k] => let s := close d.s (Drv.nat! k); ({ s }, snap s)
  | ["cleanup", k] => let s := cleanup d.s (Drv.nat! k); ({ s }, snap s)
  | ["opencheck", k] => let (s, r) := openCheck d.s (Drv.nat! k); ({ s }, ores r ++ snap s)
  | ["openinsert", k] => let (s, r) := openInsert d.s (Drv.nat! k); ({ s }, ores r ++ snap s)
  | ["early", k] =>
    -- the connection breaks right after newSession registered it (the schedule the harness forces with its crash-point
    -- hook): the thread's two steps, then the break and the clean-up, then the thread goes on
    if k = "eof" ∨ k = "junk" then
      (d, if (Estab.run Estab.fixedProg [.t, .t, .peerBreak, .cleanup, .t]).panicked then "panic" else "returned")
    else (d, "bad-op")
  | _ => (d, "bad-op")

end Drv.C14
