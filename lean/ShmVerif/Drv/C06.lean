import ShmVerif.Model.Pipe
import ShmVerif.Drv.Util
import ShmVerif.Drv.C13
/-! Line-protocol driver for the linked-buffer / stream data path model (properties C06, C08, C09). -/
namespace Drv.C06
open LB

structure St where
  s : Sys := { m := Mem.create [] }
  dead : Bool := false       -- a modelled panic happened: the rest of the case is not comparable
  ps : Option PSys := none   -- shadow: the same operations through `pstep` (the system the C09 slot theorems are about)

def parseCls (w : String) : Nat × Nat :=
  match w.splitOn ":" with
  | [a, b] => (Drv.nat! a, Drv.nat! b)
  | _ => (0, 0)

def getS (s : Sys) (x : String) : StreamM := if x = "a" then s.a else s.b
def setS (s : Sys) (x : String) (v : StreamM) : Sys := if x = "a" then { s with a := v } else { s with b := v }
def peerOf (x : String) : String := if x = "a" then "b" else "a"

def freeStr (m : Mem) : String := Drv.joinWith "," (m.free.map (fun l => toString l.length))

def suffix (s : Sys) (x : String) : String := s!" len={(getS s x).recv.len} free={freeStr s.m}"

def hex (l : List Nat) : String := Drv.C13.toHex l
def unhex (h : String) : List Nat := Drv.C13.parseHex h.toList

/-- Stream.readMore(minSize) with a read deadline in the past: move pending data, then either enough or time-out -/
def readMore (s : Sys) (x : String) (n : Nat) : Option (Sys × Bool) :=
  let st := getS s x
  if st.recv.len ≥ n then some (s, true) else
  match moveTo s.m st with
  | none => none
  | some (m', st') =>
    let s' := setS { s with m := m' } x st'
    some (s', decide (st'.recv.len ≥ n))

def bad (d : St) : St × String := (d, "bad-op")
def panic (d : St) : St × String := ({ d with dead := true }, "panic")

def readerOp (d : St) (x : String) (n : Nat)
    (f : Mem → LBuf → Option (Mem × LBuf × String)) : St × String :=
  match readMore d.s x n with
  | none => panic d
  | some (s1, false) => ({ d with s := s1 }, "timeout" ++ suffix s1 x)
  | some (s1, true) =>
    let st := getS s1 x
    match f s1.m st.recv with
    | none => panic d
    | some (m', r', out) =>
      let s2 := setS { s1 with m := m' } x { st with recv := r' }
      ({ d with s := s2 }, out ++ suffix s2 x)

def step0 (d : St) (line : String) : St × String :=
  if d.dead then (d, "dead") else
  match Drv.words line with
  | "init" :: cls => ({ s := { m := Mem.create (cls.map parseCls), held := cls.map (fun _ => []) },
                        ps := some { m := Mem.create (cls.map parseCls) } }, "ok")
  | ["wb", x, h] =>
    let st := getS d.s x
    match st.send.writeBytes d.s.m (unhex h) with
    | none => panic d
    | some (m', l') => let s' := setS { d.s with m := m' } x { st with send := l' }; ({ d with s := s' }, s!"ok wlen={l'.len}" ++ suffix s' x)
  | ["wbyte", x, b] =>
    let st := getS d.s x
    match st.send.writeByte d.s.m (Drv.nat! b) with
    | none => panic d
    | some (m', l') => let s' := setS { d.s with m := m' } x { st with send := l' }; ({ d with s := s' }, s!"ok wlen={l'.len}" ++ suffix s' x)
  | ["rsv", x, h] =>
    let st := getS d.s x
    match st.send.reserve d.s.m (unhex h) with
    | none => panic d
    | some (m', l') => let s' := setS { d.s with m := m' } x { st with send := l' }; ({ d with s := s' }, s!"ok wlen={l'.len}" ++ suffix s' x)
  | ["flush", x] =>
    let st := getS d.s x
    let pr := getS d.s (peerOf x)
    let (m', st', pr', r) := flush d.s.m st pr
    if r = .panic then panic d else
    let s' := setS (setS { d.s with m := m' } x st') (peerOf x) pr'
    let rs := match r with | .noop => "noop" | .shm => "shm" | .fallback => "fallback" | .panic => "panic"
    ({ d with s := s' }, rs ++ suffix s' x)
  | ["rb", x, n] =>
    readerOp d x (Drv.nat! n) (fun m l => (l.readBytes m (Drv.nat! n)).map (fun (m', l', o) => (m', l', "ok " ++ hex o)))
  | ["pk", x, n] =>
    readerOp d x (Drv.nat! n) (fun m l => (l.peekBytes m (Drv.nat! n)).map (fun (l', o) => (m, l', "ok " ++ hex o)))
  | ["dc", x, n] =>
    readerOp d x (Drv.nat! n) (fun m l => (l.discard m (Drv.nat! n)).map (fun (m', l', k) => (m', l', s!"ok {k}")))
  | ["rbyte", x] =>
    readerOp d x 1 (fun m l => (l.readByte m).map (fun (m', l', b) => (m', l', "ok " ++ hex [b])))
  | ["rs", x, n] =>
    readerOp d x (Drv.nat! n) (fun m l => (l.readString m (Drv.nat! n)).map (fun (m', l', o) => (m', l', "ok " ++ hex o)))
  | ["rd", x, n] =>
    if Drv.nat! n = 0 then (d, "ok " ++ suffix d.s x) else
    readerOp d x 1 (fun m l => (l.readInto m (Drv.nat! n)).map (fun (m', l', o) => (m', l', "ok " ++ hex o)))
  | ["rel", x] =>
    let st := getS d.s x
    let (m', r') := st.recv.release d.s.m
    let s' := setS { d.s with m := m' } x { st with recv := r' }
    ({ d with s := s' }, "ok" ++ suffix s' x)
  | ["reuse", x] =>
    let st := getS d.s x
    let (m', st') := reuse d.s.m st
    let s' := setS { d.s with m := m' } x st'
    ({ d with s := s' }, "ok" ++ suffix s' x)
  | ["cls", x] =>
    let st := getS d.s x
    let m' := closeStream d.s.m st
    let s' := setS { d.s with m := m' } x { inFallback := st.inFallback }
    ({ d with s := s' }, "ok" ++ suffix s' x)
  | ["fbe", x] =>
    -- a fall-back data event with an empty payload arrives for x's stream
    let st := getS d.s x
    let s' := setS d.s x { st with pending := st.pending ++ [.fb { heap := [], cap := 0, wi := 0 }] }
    ({ d with s := s' }, "ok" ++ suffix s' x)
  | ["len", x] => (d, "ok" ++ suffix d.s x)
  | ["take", c, k] =>
    let ci := Drv.nat! c
    let rec go (n : Nat) (m : Mem) (acc : List BS) : Mem × List BS :=
      match n with
      | 0 => (m, acc)
      | n + 1 => match m.pop ci with
        | some (m', b) => go n m' (acc ++ [b])
        | none => (m, acc)
    let (m', got) := go (Drv.nat! k) d.s.m []
    let s' := { d.s with m := m', held := d.s.held.modify ci (· ++ got) }
    ({ d with s := s' }, s!"ok {got.length} free={freeStr m'}")
  | ["give", c, k] =>
    let ci := Drv.nat! c
    let h := d.s.held.getD ci []
    let back := h.take (Drv.nat! k)
    let m' := back.foldl (fun m b => m.recycle b) d.s.m
    let s' := { d.s with m := m', held := d.s.held.modify ci (fun l => l.drop (Drv.nat! k)) }
    ({ d with s := s' }, s!"ok {back.length} free={freeStr m'}")
  | _ => bad d

/-! the shadow: the line's meaning as `POp`s of the stream-pair system -/

def sideB (x : String) : Bool := x != "a"

/-- the shadow state after the line, and (for ReadBytes / Peek that ran) what `pout` says they return -/
def shadowReader (p : PSys) (x : String) (n : Nat) (op : POp) : Option (PSys × Option (List Nat)) :=
  let b := sideB x
  let p1 := if (p.get b).recv.len ≥ n then some p else pstep p (.more b)
  match p1 with
  | none => none
  | some p1 =>
    if (p1.get b).recv.len ≥ n then (pstep p1 op).map (fun p2 => (p2, some (pout p1 op))) else some (p1, none)

/-- `some (some p')`: the line maps to operations of the system; `some none`: it does not (shadow ends); `none`: panic -/
def shadowStep (p : PSys) (line : String) : Option (Option (PSys × Option (List Nat))) :=
  let plain (r : Option PSys) : Option (Option (PSys × Option (List Nat))) := r.map (fun p' => some (p', none))
  let quiet (r : Option (PSys × Option (List Nat))) : Option (Option (PSys × Option (List Nat))) :=
    r.map (fun (p', _) => some (p', none))
  match Drv.words line with
  | ["wb", x, h] => plain (pstep p (.write (sideB x) (unhex h)))
  | ["wbyte", x, b] => plain (pstep p (.writeByte (sideB x) (Drv.nat! b)))
  | ["flush", x] => plain (pstep p (.flush (sideB x)))
  | ["rb", x, n] => (shadowReader p x (Drv.nat! n) (.readBytes (sideB x) (Drv.nat! n))).map some
  | ["pk", x, n] => (shadowReader p x (Drv.nat! n) (.peek (sideB x) (Drv.nat! n))).map some
  | ["dc", x, n] => quiet (shadowReader p x (Drv.nat! n) (.discard (sideB x) (Drv.nat! n)))
  | ["rbyte", x] => (shadowReader p x 1 (.readByte (sideB x))).map some
  | ["rs", x, n] => (shadowReader p x (Drv.nat! n) (.readString (sideB x) (Drv.nat! n))).map some
  | ["rd", x, n] => if Drv.nat! n = 0 then some (some (p, none)) else quiet (shadowReader p x 1 (.readInto (sideB x) (Drv.nat! n)))
  | ["rel", x] => plain (pstep p (.release (sideB x)))
  | ["cls", x] => plain (pstep p (.close (sideB x)))
  | ["len", _] => some (some (p, none))
  | _ => some none

def step (d : St) (line : String) : St × String :=
  let (d', out) := step0 d line
  if d.dead || d'.dead then (d', out) else
  match Drv.words line with
  | "init" :: _ => (d', out)
  | _ =>
    match d.ps with
    | none => ({ d' with ps := none }, out)
    | some p =>
      match shadowStep p line with
      | none => ({ d' with ps := none }, out ++ " shadow-panic")
      | some none => ({ d' with ps := none }, out)
      | some (some (p', bytes)) =>
        let sameState := p'.m == d'.s.m && p'.a == d'.s.a && p'.b == d'.s.b
        -- `pout` (what the refinement theorem calls the result of a reader call) is what this line printed
        let sameOut := match bytes with
          | some bs => out.startsWith ("ok " ++ hex bs ++ " ")
          | none => true
        if sameState && sameOut then ({ d' with ps := some p' }, out)
        else ({ d' with ps := none }, out ++ (if sameState then " shadow-output-mismatch" else " shadow-mismatch"))

end Drv.C06
