import ShmVerif.Model.Layout
import ShmVerif.Drv.Util
/-! Line-protocol driver for the layout model (property C03). -/
namespace Drv.C03
open Layout

structure St where
  memLen : Nat := 0
  mgr : Option Mgr := none

def showGeom (g : ListGeom) : String :=
  s!"{g.off}/{g.num}/{g.capPer}/{g.regionOff}/{g.regionLen}/{g.head}/{g.tail}"

def showLists (l : List ListGeom) : String := Drv.joinWith ";" (l.map showGeom)

def parsePair (w : String) : Pair :=
  match w.splitOn ":" with
  | [a, b] => { size := Drv.nat! a, percent := Drv.nat! b }
  | _ => default

def showQ (q : QueueGeom) : String := s!"{q.base}/{q.cap}/{q.headOff}/{q.tailOff}/{q.flagOff}/{q.ringOff}/{q.ringEnd}"

def step (d : St) (line : String) : St × String :=
  match Drv.words line with
  | "create" :: m :: ps =>
    let memLen := Drv.nat! m
    match createBufferManager (ps.map parsePair) memLen with
    | .ok mg => ({ memLen, mgr := some mg }, s!"ok used={mg.usedLen} n={mg.listNumField} lists={showLists mg.lists}")
    | .err _ => ({ memLen, mgr := none }, "err")
    | .panic _ => ({ memLen, mgr := none }, "panic")
  | ["map"] =>
    match d.mgr with
    | none => (d, "nothing")
    | some mg =>
      match mappingBufferManager mg d.memLen with
      | .ok l => (d, s!"ok lists={showLists l}")
      | .err _ => (d, "err")
      | .panic _ => (d, "panic")
  | "verify" :: c :: ps => (d, if verifyConfig (Drv.nat! c) (ps.map parsePair) then "accept" else "reject")
  | ["queue", c] =>
    let cap := Drv.nat! c
    let cr := createQueueManager cap
    let mp := mappingQueueManager (countQueueMemSize cap * queueCount) cap cap
    (d, s!"csend={showQ cr.send} crecv={showQ cr.recv} msend={showQ mp.send} mrecv={showQ mp.recv}")
  | ["qmgr", t, c] =>
    -- the same geometry through the real creation / mapping entry points
    let cap := Drv.nat! c
    if (t ≠ "file" ∧ t ≠ "memfd") ∨ cap > 131072 then (d, "bad-op") else
    let cr := createQueueManager cap
    let mp := mappingQueueManager (countQueueMemSize cap * queueCount) cap cap
    (d, s!"csend={showQ cr.send} crecv={showQ cr.recv} msend={showQ mp.send} mrecv={showQ mp.recv}")
  | _ => (d, "bad-op")

end Drv.C03
