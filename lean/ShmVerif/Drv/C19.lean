import ShmVerif.Model.NetL
import ShmVerif.Drv.Util
/-! Line-protocol driver for the net.Listener adapter model (property C19). -/
namespace Drv.C19
open NetL

structure DSt where
  l : L := { cap := 8 }

def b (x : Bool) : Nat := if x then 1 else 0

def snap (l : L) : String :=
  s!"closed={b l.closed} listed={(l.sess.filter (·.listed)).length} backlog={l.backlog.length} handed={l.handed.length}"

def step (d : DSt) (line : String) : DSt × String :=
  let l := d.l
  match Drv.words line with
  | ["dial"] =>
    if l.sess.length ≥ 3 then (d, "bad-op")
    else if l.closed then (d, "refused " ++ snap l)
    else let l' := newSess l; ({ l := l' }, "ok " ++ snap l')
  | ["latedial", c] =>
    -- the handshake of an accepted connection completes after (c = 1) the listener was closed
    if c ≠ "0" ∧ c ≠ "1" then (d, "bad-op")
    else if l.sess.length ≥ 3 then (d, "bad-op")
    else if l.closed then (d, "refused " ++ snap l)
    else let l' := newSess (if c == "1" then close l else l); ({ l := l' }, "ok " ++ snap l')
  | ["open", k] =>
    match l.sess[Drv.nat! k]? with
    | none => (d, "bad-op")
    | some x =>
      if x.closed then (d, "done " ++ snap l)
      else let l' := stream l (Drv.nat! k); ({ l := l' }, "done " ++ snap l')
  | ["accept"] =>
    if l.backlog.isEmpty ∧ !l.closed then (d, "empty " ++ snap l)
    else match accept l with
      | (l', some _) => ({ l := l' }, "ok " ++ snap l')
      | (l', none) => ({ l := l' }, "closed " ++ snap l')
  | ["echo", c, _] =>
    match l.handed[Drv.nat! c]? with
    | none => (d, "noop " ++ snap l)
    | some w =>
      match l.conns[w]? with
      | none => (d, "noop " ++ snap l)
      | some x => if x.closed ∨ ((l.sess[x.sess]?).map (·.closed)).getD true then (d, "noop " ++ snap l) else (d, "ok " ++ snap l)
  | ["cclose", c] =>
    match l.handed[Drv.nat! c]? with
    | none => (d, "noop " ++ snap l)
    | some w => let l' := closeConn l w; ({ l := l' }, "ok " ++ snap l')
  | ["drop", k] =>
    match l.sess[Drv.nat! k]? with
    | none => (d, "noop " ++ snap l)
    | some _ => let l' := sessGone l (Drv.nat! k); ({ l := l' }, "ok " ++ snap l')
  | ["lclose"] => let l' := close l; ({ l := l' }, "ok " ++ snap l')
  | _ => (d, "bad-op")

end Drv.C19
