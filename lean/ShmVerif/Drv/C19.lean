import ShmVerif.Model.NetL
import ShmVerif.Drv.Util
/-! Line-protocol driver for the net.Listener adapter model (property C19). -/
namespace Drv.C19
open NetL

structure DSt where
  l : L := { cap := 8 }
  tailed : List Nat := []      -- handed-out conns whose client end wrote its last bytes and closed (op `tail`)

def b (x : Bool) : Nat := if x then 1 else 0

def snap (l : L) : String :=
  s!"closed={b l.closed} listed={(l.sess.filter (·.listed)).length} backlog={l.backlog.length} handed={l.handed.length}"

def step (d : DSt) (line : String) : DSt × String :=
  let l := d.l
  match Drv.words line with
  | ["dial"] =>
    if l.sess.length ≥ 3 then (d, "bad-op")
    else if l.closed then (d, "refused " ++ snap l)
    else let l' := newSess l; ({ d with l := l' }, "ok " ++ snap l')
  | ["latedial", c] =>
    -- the handshake of an accepted connection completes after (c = 1) the listener was closed
    if c ≠ "0" ∧ c ≠ "1" then (d, "bad-op")
    else if l.sess.length ≥ 3 then (d, "bad-op")
    else if l.closed then (d, "refused " ++ snap l)
    else let l' := newSess (if c == "1" then close l else l); ({ d with l := l' }, "ok " ++ snap l')
  | ["open", k] =>
    match l.sess[Drv.nat! k]? with
    | none => (d, "bad-op")
    | some x =>
      if x.closed then (d, "done " ++ snap l)
      else let l' := stream l (Drv.nat! k); ({ d with l := l' }, "done " ++ snap l')
  | ["accept"] =>
    if l.backlog.isEmpty ∧ !l.closed then (d, "empty " ++ snap l)
    else match accept l with
      | (l', some _) => ({ d with l := l' }, "ok " ++ snap l')
      | (l', none) => ({ d with l := l' }, "closed " ++ snap l')
  | ["echo", c, _] =>
    if d.tailed.contains (Drv.nat! c) then (d, "noop " ++ snap l) else
    match l.handed[Drv.nat! c]? with
    | none => (d, "noop " ++ snap l)
    | some w =>
      match l.conns[w]? with
      | none => (d, "noop " ++ snap l)
      | some x => if x.closed ∨ ((l.sess[x.sess]?).map (·.closed)).getD true then (d, "noop " ++ snap l) else (d, "ok " ++ snap l)
  | ["tail", c, _] =>
    -- the client end writes and closes: nothing changes in the adapter's accounting until the server closes its conn
    if d.tailed.contains (Drv.nat! c) then (d, "noop " ++ snap l) else
    match l.handed[Drv.nat! c]? with
    | none => (d, "noop " ++ snap l)
    | some w =>
      match l.conns[w]? with
      | none => (d, "noop " ++ snap l)
      | some x => if x.closed ∨ ((l.sess[x.sess]?).map (·.closed)).getD true then (d, "noop " ++ snap l)
                  else ({ d with tailed := d.tailed ++ [Drv.nat! c] }, "ok " ++ snap l)
  | ["cclose", c] =>
    match l.handed[Drv.nat! c]? with
    | none => (d, "noop " ++ snap l)
    | some w => let l' := closeConn l w; ({ d with l := l' }, "ok " ++ snap l')
  | ["drop", k] =>
    match l.sess[Drv.nat! k]? with
    | none => (d, "noop " ++ snap l)
    | some _ => let l' := sessGone l (Drv.nat! k); ({ d with l := l' }, "ok " ++ snap l')
  | ["lclose"] => let l' := close l; ({ d with l := l' }, "ok " ++ snap l')
  | _ => (d, "bad-op")

end Drv.C19
