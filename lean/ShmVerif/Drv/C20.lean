import ShmVerif.Model.Callback
import ShmVerif.Drv.Util
/-! Line-protocol driver for the callback-mode model (property C20). -/
namespace Drv.C20
open Callback

structure DSt where
  s : State := Callback.init

def stNum (x : St) : Nat := x.num

def ePc : EPc → String
  | .idle => "idle" | .dataLoad => "dataLoad" | .dataCas => "dataCas" | .pcloseCas => "pcloseCas"

def gPc : GPc → String
  | .start => "start" | .loadState => "load" | .in3 => "in3" | .in2 => "in2" | .in1 => "in1" | .store0 => "store0" | .loadClose => "loadClose"
  | .recheck => "recheck" | .closeLoad => "closeLoad" | .closeCas _ => "closeCas" | .waitG _ => "waitG" | .cleaning _ => "cleaning" | .done => "done"

def uPc : UPc → String
  | .start => "start" | .store => "store" | .loadIn => "loadIn" | .casHalf => "casHalf" | .closeLoad => "closeLoad"
  | .closeCas _ => "closeCas" | .waitG _ => "waitG" | .cleaning _ => "cleaning" | .done => "done"

def b (x : Bool) : Nat := if x then 1 else 0

def snap (s : State) : String :=
  s!"st={stNum s.state} ip={b s.inProcess} cr={b s.closeReq} pend={s.pending} recv={s.recv} e={ePc s.e} u={uPc s.u} g={Drv.joinWith "," (s.gs.map gPc)} calls={s.calls} cons={s.consumed} off={s.offered} max={s.maxOnData} note={s.notified} ol={s.onLocal} or={s.onRemote}"

def gBlocked (s : State) (g : GPc) : Bool :=
  match g with
  | .done => true
  | .waitG _ => !wgZero s
  | _ => false

def uBlocked (s : State) : Bool :=
  match s.u with
  | .start | .done => true
  | .waitG _ => !wgZero s
  | _ => false

/-- deterministic completion: the event loop first, then the lowest goroutine that can move (OnData consumes everything and
    does not close), then the user's Close if it is under way -/
def finish : Nat → State → State
  | 0, s => s
  | f + 1, s =>
    if s.e ≠ .idle then finish f (stepE s .none)
    else match s.gs.findIdx? (fun g => !gBlocked s g) with
      | some i => finish f (stepG s i { consume := 1000000, close := false })
      | none => if uBlocked s then s else finish f (stepU s)

def step (d : DSt) (line : String) : DSt × String :=
  match Drv.words line with
  | ["init"] => ({ s := Callback.init }, "ok")
  | ["e"] => let s := stepE d.s .none; ({ s }, snap s)
  | ["e", "data", n] => let s := stepE d.s (.data (Drv.nat! n)); ({ s }, snap s)
  | ["e", "dataf", n] => let s := stepE d.s (.data (Drv.nat! n)); ({ s }, snap s)
  | ["e", "pclose"] => let s := stepE d.s .pclose; ({ s }, snap s)
  | ["g", i, k, c] => let s := stepG d.s (Drv.nat! i) { consume := Drv.nat! k, close := c = "1" }; ({ s }, snap s)
  | ["u"] => let s := stepU d.s; ({ s }, snap s)
  | ["setcb"] => (d, "refused " ++ snap d.s)       -- a refused SetCallbacks changes nothing
  | ["finish"] => let s := finish 100000 d.s; ({ s }, "done " ++ snap s)
  | _ => (d, "bad-op")

end Drv.C20
