import ShmVerif.Model.FreeListC
import ShmVerif.Drv.Util
/-! Line-protocol driver for the access-granular free-list model (properties C01, C02). -/
namespace Drv.C01
open FreeListC

structure St where
  n : Nat := 0
  progs : List (List Op) := []
  s : Option State := none

def parseOp (w : String) : Op :=
  if w = "pop" then .pop
  else match w.splitOn ":" with
    | ["push", k] => .push (Drv.nat! k)
    | _ => .pop

def showRes : Res → String
  | .got i => s!"got:{i}" | .nomore => "nomore" | .pushed i => s!"pushed:{i}" | .skipped => "skipped"

def snap (s : State) : String :=
  let sl := s.slots.map (fun x => s!"{x.next}:{x.flag}")
  s!"head={s.head} tail={s.tail} size={s.size} cnt={s.counter} slots={Drv.joinWith "," sl}"

def get (d : St) : State := d.s.getD (prime (FreeListC.init d.n d.progs))

def finishAll (s : State) : State :=
  (List.range s.ths.length).foldl (fun s t => runToIdle 100000 s t) s

def showNats (l : List Nat) : String := Drv.joinWith "," (l.map toString)

def step (d : St) (line : String) : St × String :=
  match Drv.words line with
  | ["init", n] => ({ n := Drv.nat! n }, "ok")
  | "thread" :: ops => ({ d with progs := d.progs ++ [ops.map parseOp] }, "ok")
  | ["step", t] =>
    let (s', lab) := FreeListC.step (get d) (Drv.nat! t)
    ({ d with s := some s' }, s!"{lab} {snap s'}")
  | ["finish"] =>
    let s := finishAll (get d)
    let rs := s.ths.map (fun th => "[" ++ Drv.joinWith "," (th.res.map showRes) ++ "]held[" ++ showNats th.held ++ "]")
    ({ d with s := some s },
      s!"res={Drv.joinWith ";" rs} aba={s.aba} walk={showNats (walk (s.slots.length + 1) s s.head)} {snap s}")
  | _ => (d, "bad-op")

end Drv.C01
