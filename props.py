# Per-property configuration of ./check (which Lean modules carry the obligations, whether a harness run exists,
# what the evidence says about trusted base / assumptions / how cases are generated).
COMMON_TB = [
    "Lean 4.33.0 kernel (thorough tier: leanchecker re-check of the .olean files)",
    "go/extract (tie 1: constants + normalised function bodies re-read from /repo on every run)",
    "go/instrument + baton scheduler + in-package harness (tie 2: same op lines through the real code and the Lean model)",
]
PROPS = {
    "C04": {
        "lean_modules": ["ShmVerif.Tie.C04", "ShmVerif.Props.C04"],
        "harness": True,
        "level": "proof",
        "trusted_base": COMMON_TB,
        "rule": "cases = (capacity in 0..4, cursor base incl. wrap positions, 1-3 producers with 1-4 unique elements each, "
                "consumer pop count, random PCT-flavoured schedule of single-access steps, deterministic completion); "
                "non-trivial = hit at least one of: lock contended, queue full, consumer reading while a producer is inside "
                "the critical section, cursor wrap; distinct by hash of the op lines",
        "assumptions": ["sequential consistency at the level of the listed accesses (amd64 TSO + sync/atomic)",
                        "fewer than 2^63 enqueues (cursors modelled as Nat)",
                        "one consumer per queue; producers of one process serialised by sync.Mutex (TryLock-modelled)"],
    },
    "C01": {
        "lean_modules": ["ShmVerif.Tie.C01", "ShmVerif.Props.C01"],
        "harness": True,
        "level": "proof",
        "trusted_base": COMMON_TB,
        "rule": "cases = (1-5 slots, 1-3 threads with random pop/push programs, random PCT-flavoured schedule of single-access "
                "steps + deterministic completion) plus systematic run-length-block interleavings of two threads; non-trivial = "
                "hit at least one of: failed head CAS, failed tail CAS, last-slot path, failed pop, ABA; distinct by hash of op lines",
        "assumptions": ["sequential consistency at the level of the listed accesses (amd64 TSO + sync/atomic)",
                        "the non-atomic flag-byte |= is modelled as one step (no concurrent writer of that byte exists outside ABA)"],
    },
}
PROPS["C02"] = dict(PROPS["C01"], lean_modules=["ShmVerif.Tie.C01", "ShmVerif.Props.C02"])
