# Per-property configuration of ./check (which Lean modules carry the obligations, whether a harness run exists,
# what the evidence says about trusted base / assumptions / how cases are generated).
COMMON_TB = [
    "Lean 4.33.0 kernel (thorough tier: leanchecker re-check of the .olean files)",
    "go/extract (tie 1: constants + normalised function bodies re-read from /repo on every run)",
    "go/instrument + baton scheduler + in-package harness (tie 2: same op lines through the real code and the Lean model)",
]
PROPS = {
    "C04": {
        "claim": "Inductive invariant of an access-granular model of queue.put/pop proved in Lean for every schedule, capacity (0, 1 included), cursor base (wrap-around) and number of producers: c04_fifo (returned sequence = prefix of the publication order, all three fields), c04_bounded, c04_window_intact, c04_returns_published, c04_full_is_full. Model tied to the code by regenerated function skeletons (tie 1) and lock-step correspondence under a controlled scheduler on the instrumented real functions (tie 2).",
        "note": "Trusted: Lean kernel; extractor; instrumenter+scheduler; sequential consistency of the listed accesses (amd64 TSO + sync/atomic); cursors do not wrap (2^63).",
        "technique": "Lean 4 proof (inductive invariant over single-access steps) + regenerated skeleton tie + scheduler lock-step correspondence",
        "design_ref": "DESIGN.md §5 C04",
        "lean_modules": ["ShmVerif.Tie.C04", "ShmVerif.Props.C04"],
        "harness": True,
        "level": "proof",
        "trusted_base": COMMON_TB,
        "rule": "cases = (capacity in 0..4, cursor base incl. wrap positions, 1-3 producers with 1-4 unique elements each, "
                "consumer pop count, random PCT-flavoured schedule of single-access steps, deterministic completion); "
                "non-trivial = hit at least one of: lock contended, queue full, consumer reading while a producer is inside "
                "the critical section, cursor wrap; distinct by hash of the op lines",
        "assumptions": ["sequential consistency at the level of the listed accesses (amd64 TSO + sync/atomic)",
                        "fewer than 2^63 enqueues (cursors modelled as Nat)",
                        "one consumer per queue; producers of one process serialised by sync.Mutex (TryLock-modelled)"],
    },
    "C01": {
        "claim": "PARTIAL proof. Proved in Lean over an access-granular model of bufferList.pop/push + header accessors: c01_geometry (EVERY interleaving: every buffer handed out is one of the n slots of its class), c01_exclusive_seq (every sequential-atomic history of any length/threads/slots: free chain and per-thread ownership partition the slots, no slot twice), c01_aba_witness (kernel-checked counter-example: the unrestricted concurrent statement is false - known finding F1, replayed on the real pop/push on every run). Exclusive ownership for ABA-free concurrent interleavings is not proved; it is covered only by the scheduler correspondence + ownership/signature monitors on the real code.",
        "note": "Trusted: Lean kernel; extractor; instrumenter+scheduler; SC at the level of the listed accesses (amd64); flag-byte |= modelled as one step.",
        "technique": "Lean 4 proof (geometry invariant over all interleavings; refinement to an abstract free list for sequential-atomic histories; decide-checked ABA witness) + skeleton tie + scheduler lock-step correspondence",
        "design_ref": "DESIGN.md §5 C01",
        "lean_modules": ["ShmVerif.Tie.C01", "ShmVerif.Props.C01"],
        "harness": True,
        "level": "proof",
        "trusted_base": COMMON_TB,
        "rule": "cases = (1-5 slots, 1-3 threads with random pop/push programs, random PCT-flavoured schedule of single-access "
                "steps + deterministic completion) plus systematic run-length-block interleavings of two threads; non-trivial = "
                "hit at least one of: failed head CAS, failed tail CAS, last-slot path, failed pop, ABA; distinct by hash of op lines",
        "assumptions": ["sequential consistency at the level of the listed accesses (amd64 TSO + sync/atomic)",
                        "the non-atomic flag-byte |= is modelled as one step (no concurrent writer of that byte exists outside ABA)"],
    },
}
PROPS["C05"] = {
    "claim": "Inductive invariant of the wake-up protocol proved in Lean for any number of producers, any queue capacity and EVERY interleaving of put / CAS workingFlag / event write with the consumer's take / pop / store 0 / re-check / store 1: c05_no_stranded (a non-empty queue with an idle consumer always has a notification in flight or a producer between its put and its wake-up) and c05_quiescent_empty. Includes the slow path where the event is handed to the send loop. Tied to the code by skeletons of wakeUpPeer, markWorking, markNotWorking, handlePolling, Flush/close call sites (tie 1) and lock-step correspondence under the controlled scheduler on two real in-package sessions sharing a queue (tie 2).",
    "note": "Trusted: Lean kernel; extractor; instrumenter+scheduler; put/pop atomic at this granularity (justified by C04); the control connection delivers every written event (C18); error exit of handlePolling (broken shared memory) outside the model.",
    "technique": "Lean 4 proof (inductive invariant over the step relation, unbounded producers) + skeleton tie + scheduler lock-step correspondence on real sessions",
    "design_ref": "DESIGN.md §5 C05",
    "lean_modules": ["ShmVerif.Tie.C05", "ShmVerif.Props.C05"],
    "harness": True, "level": "proof", "trusted_base": COMMON_TB,
    "rule": "cases = (queue capacity 1/2/3/8, 1-3 producers with 1-4 put+wake operations each, random PCT-flavoured schedule over the scheduling points put / CAS flag / write event / take / pop / store0 / check / store1, deterministic completion); non-trivial = queue full, slow path (event handed to the send loop), consumer stepped while active, re-check found work; distinct by hash of op lines",
    "assumptions": ["put and pop are atomic at this granularity (C04)", "every polling event written to the connection or handed to the send loop is eventually delivered"],
}
PROPS["C03"] = {
    "claim": "Proof. Lean model of createBufferManager / createFreeBufferList / countBufferListMemSize / mappingBufferManager / mappingFreeBufferList / the queue-manager halves with Go's typed arithmetic (uint32/uint64 wrap, int, uint16 truncation, divide-by-zero as panic). Proved for EVERY sane configuration (memLen < 2^32, every Size+20 < 2^32, percents <= 100 each, 36*k+8 <= memLen): createBufferManager_sane (never panics; error or classes laid out back to back behind their headers inside the mapping), wellLaid_disjoint + slots_disjoint (pairwise disjoint classes and slots), mappingBufferManager_roundtrip (the mapper re-derives exactly the creator's geometry), queue_crosswired (creator.send = mapper.recv, creator.recv = mapper.send, disjoint, for every cap with 24+12*cap < 2^32). Excluded inputs are shown with kernel-checked witnesses (c03_divzero_witness). Tied by skeletons/constants (tie 1) and differential runs of the real functions on generated configurations (tie 2).",
    "note": "Trusted: Lean kernel; extractor; harness; that mmap of one file/memfd gives both processes the same bytes (modelled, not verified).",
    "technique": "Lean 4 proof (typed-arithmetic model, loop invariant by induction over the pair list, round-trip theorem) + skeleton/constant tie + differential correspondence",
    "design_ref": "DESIGN.md §5 C03",
    "lean_modules": ["ShmVerif.Tie.C03", "ShmVerif.Props.C03"],
    "harness": True, "level": "proof", "trusted_base": COMMON_TB,
    "rule": "cases = (memory size: VerifyConfig-accepted 1-64 MiB / small 1-5000 bytes / boundary values; 0-5 classes; sizes 0, tiny, fraction of memory, near memory size, 4096k-20, random; percents splitting 100 or perturbed; queue capacity 0/1/2/3/8/1024/random) -> verify, create, map, queue; non-trivial = create ok / err / panic, VerifyConfig accept, multi-class; distinct by hash of op lines",
    "assumptions": ["both processes see the same bytes at the same length (mmap)", "amd64 field offsets for the queue header (4, 12, 20)"],
}
PROPS["C13"] = {
    "claim": "Proof. Lean model of Session.onEventData / handleEvents / checkEventValid / the five post-handshake handlers' length handling and dispatch, and of extractShmMetadata, in which every byte access is justified by a preceding length check (the model has no partial access). Proved: c13_chunk_independent (for EVERY byte string and EVERY way of cutting it into reads the resulting session summary, closed flag and unconsumed rest are those of a single read), c13_wellformed_roundtrip (every encoded event is parsed back to itself, consuming exactly its bytes), c13_consumed_in_range, c13_metadata_roundtrip/c13_metadata_total. Four panics found on the original code (short fallback-data events, short metadata body, HotRestart / HotRestartAck in the wrong direction) were repaired by fix: commits; the model follows the repaired code and the old crashing inputs stay in the corpus.",
    "note": "Trusted: Lean kernel; extractor; harness (bare in-package session with stub connection/dispatcher). handlePolling's drain of the shared queue is an opaque effect here (C04/C05/C07 cover it). The handshake readers other than extractShmMetadata (blocking socket reads, make(Length-8)) are exercised by C12's harness, not modelled here.",
    "technique": "Lean 4 proof (prefix-stability of the event parser, induction over the chunk list) + skeleton tie + differential correspondence on generated/mutated byte streams and chunkings",
    "design_ref": "DESIGN.md §5 C13",
    "lean_modules": ["ShmVerif.Tie.C13", "ShmVerif.Props.C13"],
    "harness": True, "level": "proof", "trusted_base": COMMON_TB,
    "rule": "cases = 1-8 events from the real encoders (polling, stream close, fallback data with assorted payload sizes/status words, hot restart, ack), each mutated with probability 5/14 (truncation, length-field perturbation incl. <8, <16, huge, wrong type, version 0, bad magic, bit flip), optional garbage tail, cut into reads (whole / byte-by-byte / 1-5 bytes / random), on client or server sessions with/without manager/listener; plus handshake metadata bodies (valid, truncated, perturbed lengths); non-trivial = protocol error, partial event kept across reads, streams created, chunked, metadata error; distinct by hash of op lines",
    "assumptions": ["the posted hot-restart lambdas are not run here (C16)", "queue empty during handlePolling in this harness"],
}
PROPS["C06"] = {
    "claim": "PARTIAL proof. Statement-level Lean model of buffer_slice.go, buffer.go (all BufferWriter/BufferReader methods, alloc with single / multi-slice / heap fall-back, done, recycle, pinned list), the sequential-atomic allocator, Stream.Flush on both transports, pendingData.moveTo with its empty-slice cases, ReleaseReadAndReuse. Proved (reader half): c06_reader_refines_bytequeue - any enabled sequence of ReadBytes / Peek / Discard over any chain of slices (empty slices, mixed shm/heap, any boundaries) returns exactly take/drop of the buffered byte sequence, Peek consumes nothing, Len tracks the consumed bytes. Writer half, transport and ReadByte/ReadString/Read are covered by lock-step correspondence of the whole model against two real in-package sessions plus a byte-pipe monitor, not yet by theorems. A genuine defect found by this check (ReleaseReadAndReuse swapping a non-empty send buffer into the read side) was repaired by a fix: commit; Discard(0) nil dereference likewise.",
    "note": "Trusted: Lean kernel; extractor; harness. Allocator modelled at sequential-atomic level (C02). Delivery to the peer is immediate in this harness (channel orderings are C07's). Blocking in readMore is replaced by an expired read deadline (time-out outcome).",
    "technique": "Lean 4 proof (refinement of the reader operations to a byte queue by induction over slices and operations) + skeleton tie + lock-step correspondence + byte-pipe monitor",
    "design_ref": "DESIGN.md §5 C06",
    "lean_modules": ["ShmVerif.Tie.C06", "ShmVerif.Props.C06"],
    "harness": True, "level": "proof", "trusted_base": COMMON_TB,
    "rule": "cases = (one of 6 slice-size configurations with tiny capacities; 4-44 operations drawn from WriteBytes / Reserve+fill / WriteByte (sizes relative to the slice capacities: 0, 1, c-1, c, c+1, 2c, 2c+1, sum of classes +-1, larger than the largest class, random), Flush with immediate delivery, ReadBytes / Peek / Discard / ReadString / Read / ReadByte (sizes mostly within the available bytes, sometimes beyond -> timeout), ReleasePreviousRead, ReleaseReadAndReuse, Len, environment take/give of buffers (exhaustion), both directions); non-trivial = multi-slice write, heap fall-back slice, fall-back transport, pinned list used, read time-out, environment take; distinct by hash of op lines",
    "assumptions": ["allocator at sequential-atomic level (C02 seq refinement)", "delivery to the peer is immediate in this harness (channel orderings are C07's)"],
}
PROPS["C08"] = dict(PROPS["C06"], lean_modules=["ShmVerif.Tie.C06", "ShmVerif.Props.C08"], design_ref="DESIGN.md §5 C08",
    claim="PARTIAL proof over the same model as C06. Proved: c08_reader_ops_preserve_payload (no sequence of reader operations, with the recycling it triggers, changes a payload byte of any slot), c08_release_preserves_payload, c08_fast_path_pins + c08_pinned_not_recycled (a slice that handed out a zero-copy view is parked, not recycled, when the reader moves past it), c08_release_returns (ReleasePreviousRead empties the parked list). Not yet proved: that writes by other holders cannot reach a parked slot (needs C09's global ownership partition); covered on the real code by a borrow monitor that re-compares every outstanding ReadBytes/Peek result after every later operation, including unrelated allocate-and-scribble.")
PROPS["C18"] = {
    "claim": "Proof. Lean model of the event connection with the kernel as an input. Proved for EVERY list of kernel results, consumer pacing and writer schedule: c18_read_window (onReadReady/maybeExpandReadBuffer/commitRead refine a byte queue: the callback sees exactly the unconsumed bytes followed by the new ones across growth, compaction, the 1 MiB early callback and the shrink rule; 0 <= start <= end <= len always), c18_write_exact and c18_writev_exact (the bytes handed to the kernel are a prefix of the data, each once and in order, success only when complete; iovec advance arithmetic and 256-slice batches included), c18_writer_mutex (at most one of the send loop / fast-path writers inside the connection), c18_sendloop_no_lost_wakeup. Tied by skeletons (tie 1) and lock-step runs of the real onReadReady/commitRead/write/writev under a syscall shim with scripted kernel results (tie 2) plus a concurrent writer stress on a real session.",
    "note": "Trusted: Lean kernel; extractor; harness + syscall shim (the kernel is an input: scripted read/write results). The socket is a reliable FIFO and EPOLLOUT after EAGAIN is eventually delivered (assumed). Channel blocking of the send loop is modelled, not scheduled.",
    "technique": "Lean 4 proof (window invariant by induction over kernel results; exactness of write/writev; mutual exclusion + no-lost-wake-up invariant of the writing flag) + skeleton tie + lock-step correspondence under a syscall shim + concurrent writer stress",
    "design_ref": "DESIGN.md §5 C18",
    "lean_modules": ["ShmVerif.Tie.C18", "ShmVerif.Props.C18"],
    "harness": True, "level": "proof", "trusted_base": COMMON_TB,
    "rule": "cases = read buffer of 4/8/16/64 bytes; 2-9 operations from: onReadReady with 1-6 scripted kernel reads (EAGAIN or up to 3x the buffer size) and consumer pacing (0, 1, 2, 5, cap, everything); write of 1-40 bytes and writev of 1-5 (sometimes 250-270) slices under scripted partial writes / EAGAIN / a kernel that stops; plus a concurrent writer stress (4 goroutines x 30 fast-path/slow-path sends) per case; non-trivial = buffer expanded, partial consumption, partial write, EAGAIN on write, stalled write, 256-iovec batch crossed; distinct by hash of op lines",
    "assumptions": ["kernel results are inputs (scripted)", "reliable FIFO socket", "EPOLLOUT delivered after EAGAIN"],
}
PROPS["C07"] = {
    "claim": "PARTIAL proof. Two models: `Proto` (operation-level model of two sessions: Flush on both transports, queue-full exit, Close/close/clean/halfClose, getStream incl. server-side stream creation, handlePolling's drain, handleStreamClose, handleFallbackData, over the LinkedBuffer/allocator model) and its message-level abstraction `Mux`; the driver runs both against two real in-package sessions and flags any disagreement. Proved on `Mux` for EVERY operation sequence, any number of streams, any queue capacity: c07_order (arrived ++ in-queue ++ on-connection = flushed, per stream and direction), c07_arrivals_prefix, c07_isolation, c07_complete_when_drained, c07_queue_has_polling; guarded by `(sender, id) not re-created` (the server re-using an id for a new stream object). A genuine defect found by this check (close element overtaking fall-back data) was repaired by a fix: commit and the model follows the repaired code. NOT proved: end-of-stream-after-data as an invariant (monitored on the real code), and the sub-operation race where the wake-up flag is published before the polling event is written (DESIGN §6 F5a).",
    "note": "Trusted: Lean kernel; extractor; harness (two bare in-package sessions, stub control connections, real send loops). Operations are atomic at this level: the sub-operation interleavings of the free list, the queue and the wake-up hand-off are C01/C02, C04, C05.",
    "technique": "Lean 4 proof + skeleton tie + lock-step correspondence of the two-session protocol model + per-stream byte-order / end-of-stream / leak monitors",
    "design_ref": "DESIGN.md §5 C07",
    "lean_modules": ["ShmVerif.Tie.C07", "ShmVerif.Props.C07"],
    "harness": True, "level": "proof", "trusted_base": COMMON_TB,
    "rule": "cases = (slice configuration, queue capacity 1/2/4/8, 1-3 client streams, 6-45 operations: writes of sizes relative to the slice capacities, Flush from either end, Close from either end, explicit delivery of the next control-connection event to either end, reads (ReadBytes/Peek/Discard/Read), ReleasePreviousRead, environment take/give); non-trivial = fall-back transport, queue full, end-of-stream seen, flush on closed stream, read on closed stream, several streams; distinct by hash of op lines",
    "assumptions": ["operation-level atomicity", "events on one control connection are handled in the order written"],
}
PROPS["C09"] = dict(PROPS["C07"], lean_modules=["ShmVerif.Tie.C07", "ShmVerif.Props.C09"], design_ref="DESIGN.md §5 C09",
    claim="PARTIAL proof. Proved (message level, `Mux`): every exit path that ends a message's life releases it - c09_flush_closed_releases, c09_queue_full_releases, c09_close_releases_buffered, c09_unknown_stream_releases; (buffer level) c09_release_empties_parked, c09_recycle_empties_buffer. NOT yet proved: the global conservation invariant and its slot-level refinement; covered on two real in-package sessions by the leak monitor (every stream closed on both ends and nothing in flight => every size class offers its full capacity, AllInUsedShareMemoryInBytes = 0), which found and led to the repair of two leaks (pinned list not recycled on Close; ReleaseReadAndReuse) and one recorded known finding (write after Close never flushed).")

PROPS["C10"] = dict(PROPS["C07"], lean_modules=["ShmVerif.Tie.C07", "ShmVerif.Props.C10"], design_ref="DESIGN.md §5 C10",
    claim="PARTIAL proof (synchronous mode). Proved on `Mux`: c10_close_final (a local Close makes the stream closed, empty and inactive), c10_flush_after_close (later flushes fail with the closed-stream outcome and touch no channel), c10_notifies_exactly_once (the close notification is issued exactly when the stream was still open; repeated Close / Close after the peer's close announce nothing more), c10_peer_half_closes (delivery half-closes the peer's stream, which then cannot send), c10_monotone_*. On the real sessions the harness checks error classes after Close, active-stream counts and end-of-stream positions. Callback mode (Close inside OnData, callback counts) is C20's harness; not proved here.")

PROPS["C15"] = dict(PROPS["C07"], lean_modules=["ShmVerif.Tie.C15", "ShmVerif.Props.C15"], design_ref="DESIGN.md §5 C15",
    claim="PARTIAL proof on the pool model (streamPool.getOrOpenStream / putOrCloseStream + Stream.reset + ReleaseReadAndReuse over the two-session protocol model): c15_ring_bounded, c15_get_takes_prefix (bounded FIFO), c15_put_pooled_is_clean (a stream is kept only if open, not in fall-back, nothing unread, nothing pending), c15_put_else_closes, c15_get_from_ring_open. The model is compared in lock step with the real streamPool on real in-package sessions; monitors on the real code: handed-out stream open / session live / no unread bytes / not handed to two callers, GetActiveStreamCount = streams not closed locally (held + pooled) after every pool operation. A genuine defect found by this check (pooled streams discarded without Close, F10) was repaired by a fix: commit. Concurrent GetStream/PutBack is not scheduled here (pool functions are mutex-protected).",
    rule="cases = (slice configuration, queue capacity, pool capacity 0-3, 8-47 operations: GetStream, PutBack of a held stream, request write+flush, delivery of events to either end, peer replies, partial reads, peer-side Close of a (possibly pooled) stream, buffer exhaustion -> fall-back); non-trivial = pool reuse, pooled stream discarded, PutBack closing the stream for each reason (fall-back, not open, unread, pending, pool full); distinct by hash of op lines")
PROPS["C02"] = dict(PROPS["C01"], lean_modules=["ShmVerif.Tie.C01", "ShmVerif.Props.C02"],
    claim="PARTIAL proof. Proved in Lean: c02_conservation_seq and c02_quiescent_full_seq (every sequential-atomic history: free count = chain length, free count + owned = capacity; when nothing is owned size = cap and the walk from head visits every slot exactly once and ends at tail), c02_failed_alloc_consumes_nothing (a failing pop restores every shared word), c02_aba_witness (kernel-checked: after the ABA schedule and full recycling size = cap = 4 but the walk visits 2 slots - known finding F1, replayed on the real code every run). Conservation for ABA-free concurrent interleavings is not proved; covered by scheduler correspondence + quiescence monitors (size, chain walk, count never exceeds capacity).",
    design_ref="DESIGN.md §5 C02")
PROPS["C20"] = {
    "claim": "PARTIAL proof. Access-granular Lean model of callback mode: the event loop's fillDataToReadBuffer (pending.add | load state | CAS callbackInProcess + spawn) and halfClose, every spawned goroutine (moveTo | IsOpen/Len test + OnData consuming any number of bytes and possibly calling Close, whose three accesses are separate steps | Store 0 | load close state | re-check + CAS | deferred close() with its load / CAS / wait for the other goroutines / clean), and a user Close() from outside. Proved for EVERY schedule, any message sizes, any number of goroutines: c20_serial (never two goroutines inside OnData), c20_single_owner, c20_no_stranded (no lost wake-up: quiescent and open => nothing pending, nothing buffered), c20_conservation (arrived = consumed + buffered + released; consumed <= offered <= arrived), c20_all_offered_partial (peer has not closed: every arrived byte was consumed by OnData), c20_stops_when_closed, c20_close_final (a requested Close, from inside OnData or outside, ends with the stream closed), c20_close_notifies_once (close notification and OnLocalClose never twice, exactly once when the peer had not closed). NOT true of the code and therefore not proved: bytes that arrived before the peer's close but were not yet offered are never offered (c20_peer_close_witness, kernel-checked on the model, replayed on the real code every run: known finding F12). Three genuine defects found by this check were repaired by fix: commits (Close racing the peer's close was a no-op; Close during a running callback never notified the peer nor fired OnLocalClose).",
    "note": "Trusted: Lean kernel; extractor; harness (bare in-package session, stub connection, real send loop, controlled scheduler at the atomic accesses of stream.go's callback hand-off; the WaitGroup wait goes through a yielding shim). Byte values/order are checked by the harness monitor inside OnData (the model counts bytes; the read buffer is a FIFO by C06). pending.add / moveTo / clear are mutex-protected and merged into the neighbouring access; the unlocked read len(pendingData.unread) is modelled as atomic.",
    "technique": "Lean 4 proof (two invariants over all interleavings of the access-granular hand-off model, goroutine sets handled by countP arithmetic) + skeleton tie + scheduler lock-step correspondence + spec monitors (reentrancy, byte order, stranded data, close finality, notification count, buffer leak)",
    "design_ref": "DESIGN.md §5 C20",
    "lean_modules": ["ShmVerif.Tie.C20", "ShmVerif.Props.C20"],
    "harness": True, "level": "proof", "trusted_base": COMMON_TB,
    "rule": "cases = 3-18 bursts of scheduler steps over the event loop (data arrivals of 1-40 bytes on shared memory or fall-back, the peer's close), the callback goroutines (OnData consuming 0 / 1 / 5 / all bytes, optionally calling Close), an outside Close; then deterministic completion; corpus witnesses first; non-trivial = arrival while in process, recheck re-takes / loses the flag, Close inside OnData, goroutine waits for goroutine, fall-back data; distinct by hash of op lines",
    "assumptions": ["pending.add / moveTo / clear are mutex-protected (merged into the neighbouring access)", "OnData is scripted: it consumes a prefix of what it is offered and may call Close"],
}
PROPS["C16"] = {
    "claim": "PARTIAL proof (under construction).",
    "note": "Trusted: Lean kernel; extractor; harness.",
    "technique": "Lean 4 proof + skeleton tie + lock-step correspondence + spec monitors",
    "design_ref": "DESIGN.md §5 C16",
    "lean_modules": ["ShmVerif.Model.Restart"],
    "harness": True, "level": "proof", "trusted_base": COMMON_TB,
    "rule": "cases = 6-35 operations",
    "assumptions": [],
}
PROPS["C17"] = dict(PROPS["C16"], design_ref="DESIGN.md §5 C17")
