//go:build verif

package shmipc

// Entry point of the verification harness. Built into the package's test binary through
// `go test -c -tags verif -overlay ...`; nothing of this lives in /repo.
//
//   VERIF_PROP=C04 VERIF_TIER=quick VERIF_SEED=1 VERIF_OUT=<dir> shmipc.test -test.run '^TestVerifMain$'
//   VERIF_REPLAY=<file>  : execute exactly the case in <file>
//
// For each property a vProp gives a generator of cases (lists of op lines in the line protocol shared
// with the Lean driver) and an executor that runs one case against the REAL code and returns one output
// line per op line plus the verdict of the spec monitor.

import (
	"bufio"
	"crypto/sha1"
	"encoding/hex"
	"encoding/json"
	"fmt"
	"io"
	"math/rand"
	"os"
	"path/filepath"
	"runtime"
	"sort"
	"strconv"
	"strings"
	"testing"
	"time"
)

type vResult struct {
	out      []string // one line per op line (canonical)
	specFail string   // "" or description of the property violation observed on the real code
	key      string   // classification of the failure (matched against known_findings.txt)
	tags     []string // non-default branches this case hit (for distinct_nontrivial and histograms)
	noModel  bool     // case is run for the spec monitor only; the Lean model is not consulted
	opsOut   []string // optional: the op lines as resolved during execution (choices the runtime made, e.g. which
	// ready branch a select took, appended to the op); written to ops.txt for the model instead of the input lines
}

type vProp struct {
	model string // model name understood by the Lean driver
	// number of generated cases per tier
	quickN, thoroughN int
	gen               func(r *rand.Rand, tier string, idx int) []string
	exec              func(ops []string) vResult
	// optional: extra deterministic cases (systematic enumeration), appended after the random ones
	systematic func(tier string, emit func(ops []string) bool)
}

var vProps = map[string]*vProp{}

func vEnvInt(name string, def int64) int64 {
	if v := os.Getenv(name); v != "" {
		if n, err := strconv.ParseInt(v, 10, 64); err == nil {
			return n
		}
	}
	return def
}

// vStuckSummary: where the goroutines that are inside the library stand (for the report of a hang)
func vStuckSummary() string {
	buf := make([]byte, 1<<21)
	n := runtime.Stack(buf, true)
	var parts []string
	for _, blk := range strings.Split(string(buf[:n]), "\n\n") {
		if !strings.Contains(blk, "shmipc-go.") || strings.Contains(blk, "vStuckSummary") {
			continue
		}
		lines := strings.Split(blk, "\n")
		var fr []string
		for _, l := range lines[1:] {
			if strings.HasPrefix(l, "github.com/cloudwego/shmipc-go.") && len(fr) < 3 {
				l = strings.TrimPrefix(l, "github.com/cloudwego/shmipc-go.")
				if i := strings.Index(l, "("); i > 0 {
					l = l[:i]
				}
				fr = append(fr, l)
			}
		}
		parts = append(parts, lines[0]+" "+strings.Join(fr, " < "))
		if len(parts) >= 6 {
			break
		}
	}
	if len(parts) == 0 {
		return ""
	}
	return "; goroutines inside the library: " + strings.Join(parts, " | ")
}

// vOverloaded: the one-minute load average exceeds the number of processors
func vOverloaded() bool {
	b, err := os.ReadFile("/proc/loadavg")
	if err != nil {
		return false
	}
	f := strings.Fields(string(b))
	if len(f) == 0 {
		return false
	}
	l, err := strconv.ParseFloat(f[0], 64)
	return err == nil && l > float64(runtime.NumCPU())
}

func vSafeExec(p *vProp, ops []string) (res vResult) {
	defer func() {
		if r := recover(); r != nil {
			res.specFail = fmt.Sprintf("harness-level panic: %v", r)
			res.key = "panic"
			for len(res.out) < len(ops) {
				res.out = append(res.out, "panic")
			}
		}
	}()
	done := make(chan vResult, 1)
	go func() {
		defer func() {
			if r := recover(); r != nil {
				done <- vResult{specFail: fmt.Sprintf("panic: %v", r), key: "panic"}
			}
		}()
		done <- p.exec(ops)
	}()
	// a case that does not finish within the limit hangs - unless the machine is overloaded (more runnable threads than
	// processors): then the limit is granted again, at most four times
	limit := time.Duration(vEnvInt("VERIF_CASE_TIMEOUT_S", 60)) * time.Second
	for round := 0; ; round++ {
		select {
		case res = <-done:
		case <-time.After(limit):
			if round < 3 && vOverloaded() {
				continue
			}
			res = vResult{specFail: "case timed out (hang)" + vStuckSummary(), key: "hang"}
		}
		break
	}
	for len(res.out) < len(ops) {
		res.out = append(res.out, "missing")
	}
	return
}

// vShrink: delta debugging on op lines, keeping the failure key.
func vShrink(p *vProp, ops []string, key string) []string {
	cur := append([]string{}, ops...)
	budget := 400
	n := 2
	for len(cur) >= 2 && budget > 0 {
		chunk := (len(cur) + n - 1) / n
		reduced := false
		for start := 0; start < len(cur) && budget > 0; start += chunk {
			end := start + chunk
			if end > len(cur) {
				end = len(cur)
			}
			cand := append(append([]string{}, cur[:start]...), cur[end:]...)
			if len(cand) == 0 {
				continue
			}
			budget--
			r := vSafeExec(p, cand)
			if r.key == "hang" {
				return cur // a candidate hung: the process state is compromised, keep what we have
			}
			if r.specFail != "" && r.key == key {
				cur = cand
				if n > 2 {
					n--
				}
				reduced = true
				break
			}
		}
		if !reduced {
			if chunk == 1 {
				break
			}
			n *= 2
			if n > len(cur) {
				n = len(cur)
			}
		}
	}
	return cur
}

func vHash(ops []string) string {
	h := sha1.Sum([]byte(strings.Join(ops, "\n")))
	return hex.EncodeToString(h[:6])
}

func vReadCase(path string) ([]string, error) {
	f, err := os.Open(path)
	if err != nil {
		return nil, err
	}
	defer f.Close()
	var ops []string
	sc := bufio.NewScanner(f)
	sc.Buffer(make([]byte, 1<<20), 1<<26)
	for sc.Scan() {
		l := strings.TrimSpace(sc.Text())
		if l == "" || strings.HasPrefix(l, "#") || strings.HasPrefix(l, "model ") || strings.HasPrefix(l, "case ") {
			continue
		}
		ops = append(ops, l)
	}
	return ops, sc.Err()
}

type vFailure struct {
	Key      string   `json:"key"`
	What     string   `json:"what"`
	Ops      []string `json:"ops"`
	Out      []string `json:"out"`
	Origin   string   `json:"origin"`
	OrigSize int      `json:"orig_size"`
}

// vCleanStale removes share-memory files and sockets that earlier harness processes left behind (a crash, a kill, or a leak
// of the library version that was running then) and whose names could be mistaken for this process' own: every name the
// harness creates carries the creating process' id, and process ids are reused. Names of processes that are still alive
// (a check of another property running at the same time) are left alone.
func vCleanStale() {
	me := os.Getpid()
	for _, dir := range []string{"/dev/shm", "/tmp"} {
		ents, err := os.ReadDir(dir)
		if err != nil {
			continue
		}
		for _, e := range ents {
			name := e.Name()
			if !strings.HasPrefix(name, "verif_") {
				continue
			}
			pid := 0
			for _, tok := range strings.FieldsFunc(name, func(r rune) bool { return r == '_' || r == '.' }) {
				if n, err := strconv.Atoi(tok); err == nil && n > 0 {
					pid = n
					break
				}
			}
			if pid == 0 {
				continue
			}
			if pid != me {
				if _, err := os.Stat(fmt.Sprintf("/proc/%d", pid)); err == nil {
					continue
				}
			}
			os.Remove(dir + "/" + name)
		}
	}
}

func TestVerifMain(t *testing.T) {
	propName := os.Getenv("VERIF_PROP")
	if propName == "" {
		t.Skip("VERIF_PROP not set")
	}
	vCleanStale()
	p := vProps[propName]
	if p == nil {
		t.Fatalf("unknown VERIF_PROP %q", propName)
	}
	internalLogger.out = io.Discard
	protocolLogger.out = io.Discard
	level = levelNoPrint
	tier := os.Getenv("VERIF_TIER")
	if tier == "" {
		tier = "quick"
	}
	seed := vEnvInt("VERIF_SEED", 1)
	outDir := os.Getenv("VERIF_OUT")
	if outDir == "" {
		t.Fatal("VERIF_OUT not set")
	}
	os.MkdirAll(outDir, 0o755)
	opsF, _ := os.Create(filepath.Join(outDir, "ops.txt"))
	implF, _ := os.Create(filepath.Join(outDir, "impl.txt"))
	opsW, implW := bufio.NewWriter(opsF), bufio.NewWriter(implF)
	fmt.Fprintf(opsW, "model %s\n", p.model)
	fmt.Fprintf(implW, "model %s\n", p.model)

	type caseT struct {
		ops    []string
		origin string
	}
	var cases []caseT
	if rp := os.Getenv("VERIF_REPLAY"); rp != "" {
		ops, err := vReadCase(rp)
		if err != nil {
			t.Fatal(err)
		}
		cases = append(cases, caseT{ops, "replay:" + rp})
	} else {
		corpusDir := filepath.Join(os.Getenv("VERIF_CORPUS"), propName)
		files, _ := filepath.Glob(filepath.Join(corpusDir, "*.txt"))
		sort.Strings(files)
		for _, f := range files {
			if ops, err := vReadCase(f); err == nil && len(ops) > 0 {
				cases = append(cases, caseT{ops, "corpus:" + filepath.Base(f)})
			}
		}
		n := p.quickN
		if tier == "thorough" {
			n = p.thoroughN
		}
		if m := vEnvInt("VERIF_CASES", 0); m > 0 {
			n = int(m)
		}
		r := rand.New(rand.NewSource(seed*1000003 + 17))
		if p.gen != nil {
			for i := 0; i < n; i++ {
				cases = append(cases, caseT{p.gen(r, tier, i), fmt.Sprintf("gen:%d", i)})
			}
		}
		if p.systematic != nil {
			k := 0
			p.systematic(tier, func(ops []string) bool {
				cases = append(cases, caseT{append([]string{}, ops...), fmt.Sprintf("sys:%d", k)})
				k++
				return true
			})
		}
	}

	tagHist := map[string]int{}
	opHist := map[string]int{}
	distinct := map[string]bool{}
	var failures []vFailure
	var samples [][]string
	seenKeys := map[string]int{}
	modelCases := 0
	start := time.Now()
	curPath := filepath.Join(outDir, "cur_case.txt")
	timeBudget := time.Duration(vEnvInt("VERIF_TIME_BUDGET_S", 0)) * time.Second
	for ci, c := range cases {
		if timeBudget > 0 && time.Since(start) > timeBudget {
			break // search mode: bounded wall time per seed
		}
		// if the process dies inside this case (a fault in the library is not recoverable) the driver finds it here
		os.WriteFile(curPath, []byte("# origin "+c.origin+"\n"+strings.Join(c.ops, "\n")+"\n"), 0o644)
		tCase := time.Now()
		res := vSafeExec(p, c.ops)
		if d := time.Since(tCase); d > 100*time.Millisecond && os.Getenv("VERIF_TIMING") != "" {
			fmt.Fprintf(os.Stderr, "slow case %d (%v): %s\n", ci, d, strings.Join(c.ops, ";"))
		}
		if !res.noModel {
			fmt.Fprintf(opsW, "case %d\n", ci)
			fmt.Fprintf(implW, "case %d\n", ci)
			for i, op := range c.ops {
				if i < len(res.opsOut) && res.opsOut[i] != "" {
					op = res.opsOut[i]
				}
				fmt.Fprintln(opsW, op)
				fmt.Fprintln(implW, res.out[i])
			}
			modelCases++
		}
		for _, tg := range res.tags {
			tagHist[tg]++
		}
		for _, op := range c.ops {
			opHist[strings.Fields(op + " _")[0]]++
		}
		if len(res.tags) > 0 {
			distinct[vHash(c.ops)] = true
		}
		if len(samples) < 3 || (len(samples) < 6 && len(res.tags) > 1) {
			s := c.ops
			if len(s) > 40 {
				s = append(append([]string{}, s[:40]...), fmt.Sprintf("... (%d more)", len(s)-40))
			}
			samples = append(samples, s)
		}
		if res.key == "hang" {
			// a call of the real code did not return: the goroutine (and whatever scheduler / lock state it holds) is
			// stuck for good, later cases would only hang on it. Report this case as it is and stop the run.
			seenKeys[res.key]++
			failures = append(failures, vFailure{Key: "hang", What: fmt.Sprintf("the case did not finish within %d s: a call into the library never returned (no shrinking: the process state is not reusable)%s", vEnvInt("VERIF_CASE_TIMEOUT_S", 60), strings.TrimPrefix(res.specFail, "case timed out (hang)")), Ops: c.ops, Out: res.out, Origin: c.origin, OrigSize: len(c.ops)})
			break
		}
		if res.specFail != "" {
			seenKeys[res.key]++
			if seenKeys[res.key] <= 2 {
				shr := c.ops
				if os.Getenv("VERIF_NOSHRINK") == "" {
					shr = vShrink(p, c.ops, res.key)
				}
				r2 := vSafeExec(p, shr)
				what := r2.specFail
				if what == "" {
					what, shr, r2 = res.specFail, c.ops, res
				}
				failures = append(failures, vFailure{Key: res.key, What: what, Ops: shr, Out: r2.out, Origin: c.origin, OrigSize: len(c.ops)})
			}
		}
	}
	opsW.Flush()
	implW.Flush()
	opsF.Close()
	implF.Close()
	stats := map[string]interface{}{
		"property": propName, "tier": tier, "seed": seed,
		"cases": len(cases), "model_cases": modelCases, "distinct_nontrivial": len(distinct),
		"tag_hist": tagHist, "op_hist": opHist, "samples": samples,
		"failures": failures, "fail_keys": seenKeys, "wall_s": time.Since(start).Seconds(),
	}
	jb, _ := json.MarshalIndent(stats, "", " ")
	os.WriteFile(filepath.Join(outDir, "stats.json"), jb, 0o644)
}

// small helpers shared by the property files

func vFields(op string) []string { return strings.Fields(op) }

func vAtoi(s string) int {
	n, _ := strconv.Atoi(s)
	return n
}

func vErrClass(err error) string {
	if err == nil {
		return "ok"
	}
	switch err {
	case ErrNoMoreBuffer:
		return "nomore"
	case ErrQueueFull:
		return "full"
	case errQueueEmpty:
		return "empty"
	case ErrStreamClosed:
		return "closed"
	case ErrEndOfStream:
		return "eos"
	case ErrTimeout:
		return "timeout"
	case ErrNotEnoughData:
		return "notenough"
	case ErrInvalidMsgType:
		return "invalidtype"
	case ErrInvalidVersion:
		return "invalidversion"
	case ErrSessionShutdown:
		return "shutdown"
	}
	return "err"
}
