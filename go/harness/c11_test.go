//go:build verif

package shmipc

// C11: blocking calls and what releases them.
// (i)  Stream.readMore under the controlled scheduler, against ShmVerif/Model/ReadWait.lean: the reader thread steps from
//      its start to the end-of-stream test, to the select, through the select's ready branches; the event loop delivers
//      data in two steps (pending.add | state load + notify); closes are atomic events. When several branches of the
//      select are ready Go chooses at random: the harness reports the branch taken to the model.
//        read <min> <deadline 0/1> | r <tok|close|timer> | w <n> | pclose | lclose | sclose
// (ii) wall-clock scenarios on real goroutines (no model):  t <deadline|data|flushfull|accept|sessionclose|peerclose|expired|tie>

import (
	"fmt"
	"math/rand"
	"strings"
	"time"
)

func init() {
	vProps["C11"] = &vProp{model: "c11", quickN: 1500, thoroughN: 30000, gen: c11Gen, exec: c11Exec}
}

type c11Run struct {
	sess  *Session
	st    *Stream
	sched *vScheduler
	rth   *vThread
	rErr  error
	rMin  int
	rDl   bool
	rInClose bool
	eth   *vThread
	ewrap bufferSliceWrapper
	eIdle bool
	eStop bool
	sizes map[*bufferSlice]int
	next  byte
	pick  string
	fail  string
	key   string
	tags  map[string]bool
}

func (c *c11Run) setFail(key, what string) {
	if c.fail == "" {
		c.fail, c.key = what, key
	}
}

func c11Filter(site string) bool {
	return site == "eidle" || site == "sel:Stream.readMore#1" || strings.HasPrefix(site, "getStreamState:")
}

func (c *c11Run) start() error {
	_, bmA, _, err := c06BuildMem([]int{64}, []int{16})
	if err != nil {
		return err
	}
	qa, _ := vQueuePair(8)
	c.sess = vBareSession(true, qa, bmA, &vStubConn{})
	c.sess.dispatcher = &vStubDispatcher{}
	go c.sess.send() // a close on a stream in fall-back state goes through the send loop
	c.st = newStream(c.sess, 3)
	c.sess.streams[3] = c.st
	c.sizes = map[*bufferSlice]int{}
	c.sched = &vScheduler{filter: c11Filter, checkGoid: true}
	vS = c.sched
	c.eIdle = true
	c.eth = c.sched.newThread(func() {
		for {
			c.eIdle = true
			vYield("eidle")
			if c.eStop {
				return
			}
			c.eIdle = false
			c.sess.handleStreamMessage(c.st, c.ewrap, streamOpened)
		}
	})
	c.sched.step(c.eth)
	return nil
}

func (c *c11Run) tokenReady() bool { return len(c.st.recvNotifyCh) > 0 }
func (c *c11Run) closeReady() bool {
	select {
	case <-c.st.closeNotifyCh:
		return true
	default:
		return false
	}
}

func (c *c11Run) pend() int {
	n := 0
	c.st.pendingData.Lock()
	for _, w := range c.st.pendingData.unread {
		n += c.sizes[w.fallbackSlice]
	}
	c.st.pendingData.Unlock()
	return n
}

func (c *c11Run) rPc() string {
	th := c.rth
	switch {
	case th == nil:
		return "idle"
	case th.done:
		switch c.rErr {
		case nil:
			return "done:ok"
		case ErrEndOfStream:
			return "done:eos"
		case ErrStreamClosed:
			return "done:closed"
		case ErrTimeout:
			return "done:timeout"
		}
		return "done:?" + c.rErr.Error()
	case th.site == "start":
		return "start"
	case strings.HasPrefix(th.site, "sel:"):
		return "sel"
	case strings.HasPrefix(th.site, "getStreamState:"):
		if c.rInClose {
			return "closeChk"
		}
		return "chkOpen"
	}
	return "?" + th.site
}

func (c *c11Run) snap() string {
	b := func(v bool) int {
		if v {
			return 1
		}
		return 0
	}
	w := "idle"
	if !c.eIdle {
		w = "loaded"
	}
	return fmt.Sprintf("st=%d pend=%d recv=%d tok=%d cl=%d r=%s w=%s", c.st.getStreamState(), c.pend(), c.st.recvBuf.Len(), b(c.tokenReady()), b(c.closeReady()), c.rPc(), w)
}

// the property on the real objects: a reader asleep in the select with nobody about to wake it has nothing pending
func (c *c11Run) check(when string) {
	if c.rth == nil || c.rth.done || !strings.HasPrefix(c.rth.site, "sel:") || !c.eIdle {
		return
	}
	if !c.tokenReady() && !c.closeReady() && c.pend() > 0 {
		c.setFail("read-lost-wakeup", fmt.Sprintf("%s: the reader sleeps in readMore's select, no notification is queued, the event loop is idle, yet %d byte(s) wait in pendingData", when, c.pend()))
	}
	if !c.closeReady() && c.st.getStreamState() != uint32(streamOpened) {
		c.setFail("read-close-not-notified", fmt.Sprintf("%s: the stream left the open state (%d) but the close notification did not fire: a reader without deadline would sleep for ever", when, c.st.getStreamState()))
	}
}

func (c *c11Run) op(f []string) string {
	switch {
	case len(f) == 3 && f[0] == "read":
		if c.rth != nil && !c.rth.done {
			return c.snap()
		}
		min, dl := vAtoi(f[1]), f[2] == "1"
		if min < 1 || min > 200 {
			return "bad-op"
		}
		c.rMin, c.rDl, c.rInClose = min, dl, false
		if dl {
			c.st.SetReadDeadline(time.Now().Add(-time.Hour))
		} else {
			c.st.SetReadDeadline(time.Time{})
		}
		c.rErr = nil
		c.rth = c.sched.newThread(func() { c.rErr = c.st.readMore(min) })
	case len(f) == 2 && f[0] == "r":
		th := c.rth
		if th == nil || th.done {
			return c.snap()
		}
		if strings.HasPrefix(th.site, "sel:") {
			tok, cl, tm := c.tokenReady(), c.closeReady(), c.rDl
			want := f[1]
			ready := map[string]bool{"tok": tok, "close": cl, "timer": tm}
			if !ready[want] {
				return c.snap() // the requested branch is not ready: the reader keeps sleeping
			}
			nready := 0
			for _, v := range ready {
				if v {
					nready++
				}
			}
			c.sched.step(th)
			// which branch ran?
			got := want
			switch {
			case th.done && c.rErr == ErrTimeout:
				got = "timer"
			case tok && !c.tokenReady():
				got = "tok"
			default:
				got = "close"
			}
			if got == "close" {
				c.rInClose = true
			}
			if nready > 1 {
				c.tags["select-several-ready"] = true
			}
			c.pick = got
		} else {
			c.sched.step(th)
		}
		if th.done {
			// S (C11): a read succeeds only with enough data buffered, and times out only if it has a deadline
			if c.rErr == nil && c.st.recvBuf.Len() < c.rMin {
				c.setFail("read-ok-without-data", fmt.Sprintf("readMore(%d) returned nil with %d byte(s) buffered", c.rMin, c.st.recvBuf.Len()))
			}
			if c.rErr == ErrTimeout && !c.rDl {
				c.setFail("read-timeout-without-deadline", "readMore returned ErrTimeout although no deadline was set")
			}
			c.tags["read-"+strings.TrimPrefix(c.rPc(), "done:")] = true
		}
	case len(f) == 2 && f[0] == "w":
		n := vAtoi(f[1])
		if n < 1 || n > 64 {
			return "bad-op"
		}
		if c.eIdle {
			data := make([]byte, n)
			for i := range data {
				data[i] = c.next
				c.next++
			}
			sl := newBufferSlice(nil, data, 0, false)
			sl.writeIndex = n
			c.sizes[sl] = n
			c.ewrap = bufferSliceWrapper{fallbackSlice: sl}
		}
		c.sched.step(c.eth)
	case len(f) == 1 && f[0] == "pclose":
		c.st.halfClose()
		c.tags["peer-close"] = true
	case len(f) == 1 && f[0] == "lclose":
		c.st.Close()
		c.tags["local-close"] = true
	case len(f) == 1 && f[0] == "sclose":
		c.st.safeCloseNotify() // what Session.Close does for every stream before tearing down
		c.tags["session-close"] = true
	default:
		return "bad-op"
	}
	c.check("after " + strings.Join(f, " "))
	return c.snap()
}

func c11Exec(ops []string) vResult {
	if len(ops) > 0 && strings.HasPrefix(ops[0], "t ") {
		return c11Timed(ops)
	}
	c := &c11Run{tags: map[string]bool{}}
	defer func() { vS = nil }()
	if err := c.start(); err != nil {
		return vResult{out: make([]string, len(ops)), specFail: err.Error(), key: "setup"}
	}
	var out, resolved []string
	for _, op := range ops {
		c.pick = ""
		f := vFields(op)
		out = append(out, c.op(f))
		if c.pick != "" && len(f) == 2 && f[0] == "r" {
			op = "r " + c.pick
		}
		resolved = append(resolved, op)
	}
	// let the threads end
	c.st.safeCloseNotify()
	c.sched.filter = func(string) bool { return false }
	if c.rth != nil && !c.rth.done {
		c.sched.step(c.rth)
	}
	c.eStop = true
	for i := 0; i < 5 && !c.eth.done; i++ {
		c.sched.step(c.eth)
	}
	close(c.sess.shutdownCh)
	var tags []string
	for t := range c.tags {
		tags = append(tags, t)
	}
	return vResult{out: out, specFail: c.fail, key: c.key, tags: tags, opsOut: resolved}
}

// ---- (ii) wall-clock scenarios ----

func c11Timed(ops []string) vResult {
	c := &c11Run{tags: map[string]bool{}}
	var out []string
	for _, op := range ops {
		f := vFields(op)
		if len(f) != 2 || f[0] != "t" {
			out = append(out, "bad-op")
			continue
		}
		out = append(out, c.timed(f[1]))
	}
	var tags []string
	for t := range c.tags {
		tags = append(tags, t)
	}
	return vResult{out: out, specFail: c.fail, key: c.key, tags: tags, noModel: true}
}

func (c *c11Run) timed(kind string) string {
	_, bmA, _, err := c06BuildMem([]int{64}, []int{16})
	if err != nil {
		return "bad-op"
	}
	qa, _ := vQueuePair(2)
	sess := vBareSession(false, qa, bmA, &vStubConn{})
	sess.dispatcher = &vStubDispatcher{}
	st := newStream(sess, 3)
	sess.streams[3] = st
	defer func() {
		select {
		case <-sess.shutdownCh:
		default:
			close(sess.shutdownCh)
		}
	}()
	c.tags["timed-"+kind] = true
	type res struct {
		err error
		d   time.Duration
	}
	run := func(f func() error) chan res {
		ch := make(chan res, 1)
		t0 := time.Now()
		go func() { err := f(); ch <- res{err, time.Since(t0)} }()
		return ch
	}
	wait := func(ch chan res, max time.Duration, what string) (res, bool) {
		select {
		case r := <-ch:
			return r, true
		case <-time.After(max):
			c.setFail("call-blocks", fmt.Sprintf("%s: still blocked after %v", what, max))
			st.safeCloseNotify()
			return res{}, false
		}
	}
	switch kind {
	case "deadline":
		// S (C11): a read returns when its deadline passes, with a time-out error, never early
		d := 60 * time.Millisecond
		st.SetReadDeadline(time.Now().Add(d))
		ch := run(func() error { return st.readMore(1) })
		if r, ok := wait(ch, 5*time.Second, "read with a 60 ms deadline"); ok {
			if r.err != ErrTimeout {
				c.setFail("deadline-wrong-result", fmt.Sprintf("read with a deadline and no data returned %v", r.err))
			}
			if r.d < d-2*time.Millisecond {
				c.setFail("deadline-early", fmt.Sprintf("read with a 60 ms deadline returned after %v", r.d))
			}
			if r.d > d+1500*time.Millisecond {
				c.setFail("deadline-late", fmt.Sprintf("read with a 60 ms deadline returned after %v", r.d))
			}
		}
	case "data":
		// S (C11): a read returns when enough data arrives
		st.SetReadDeadline(time.Time{})
		ch := run(func() error { return st.readMore(5) })
		time.Sleep(20 * time.Millisecond)
		for i := 0; i < 2; i++ {
			sl := newBufferSlice(nil, []byte("abc"), 0, false)
			sl.writeIndex = 3
			sess.handleStreamMessage(st, bufferSliceWrapper{fallbackSlice: sl}, streamOpened)
			time.Sleep(5 * time.Millisecond)
		}
		if r, ok := wait(ch, 5*time.Second, "read of 5 bytes after 6 bytes arrived"); ok && r.err != nil {
			c.setFail("read-fails-with-data", fmt.Sprintf("read of 5 bytes returned %v although 6 bytes arrived", r.err))
		}
	case "expired":
		// S (C11): a read whose deadline has already passed fails with a time-out at once (it must not wait for data)
		st.SetReadDeadline(time.Now().Add(-time.Second))
		ch := run(func() error { return st.readMore(1) })
		if r, ok := wait(ch, 5*time.Second, "read with a deadline that has already passed"); ok {
			if r.err != ErrTimeout {
				c.setFail("deadline-wrong-result", fmt.Sprintf("read with an expired deadline and no data returned %v", r.err))
			}
			if r.d > 1500*time.Millisecond {
				c.setFail("deadline-late", fmt.Sprintf("read with an expired deadline returned after %v", r.d))
			}
		}
	case "tie":
		// S (C11): ... with a time-out error, never early. A read is released by data at the very moment its timer fires;
		// the NEXT read with a deadline must still wait for its own deadline.
		st.SetReadDeadline(time.Now().Add(40 * time.Millisecond))
		ch := run(func() error { return st.readMore(3) })
		time.Sleep(15 * time.Millisecond) // the reader is parked in its select
		st.pendingData.Lock()
		sl := newBufferSlice(nil, []byte("abc"), 0, false)
		sl.writeIndex = 3
		st.pendingData.unread = append(st.pendingData.unread, bufferSliceWrapper{fallbackSlice: sl})
		select {
		case st.recvNotifyCh <- struct{}{}:
		default:
		}
		time.Sleep(60 * time.Millisecond) // the reader woke up for the data and waits for this lock; meanwhile its timer fires
		st.pendingData.Unlock()
		if _, ok := wait(ch, 5*time.Second, "read released by data while its timer fires"); !ok {
			break
		}
		st.recvBuf.recycle()
		d := 400 * time.Millisecond
		st.SetReadDeadline(time.Now().Add(d))
		ch2 := run(func() error { return st.readMore(100) })
		if r, ok := wait(ch2, 5*time.Second, "read with a 400 ms deadline"); ok {
			if r.err != ErrTimeout {
				c.setFail("deadline-wrong-result", fmt.Sprintf("read with a deadline and no data returned %v", r.err))
			}
			if r.d < d-2*time.Millisecond {
				c.setFail("deadline-early", fmt.Sprintf("read with a 400 ms deadline timed out after %v: the previous read on this stream was released by data at the moment its own timer fired", r.d))
			}
		}
	case "peerclose", "sessionclose":
		// S (C11): a read returns when either end closes the stream or the session dies
		st.SetReadDeadline(time.Time{})
		ch := run(func() error { return st.readMore(5) })
		time.Sleep(20 * time.Millisecond)
		if kind == "peerclose" {
			sess.handleStreamMessage(st, bufferSliceWrapper{}, streamClosed)
		} else {
			sess.Close()
		}
		if r, ok := wait(ch, 5*time.Second, "read without deadline after "+kind); ok && r.err == nil {
			c.setFail("read-ok-without-data", "read of 5 bytes returned nil after "+kind+" with no data")
		}
	case "flushfull":
		// S (C11): Flush returns although the queue stays full
		for i := 0; i < 2; i++ {
			sess.sendQueue().put(queueElement{seqID: 99})
		}
		st.BufferWriter().WriteString("x")
		ch := run(func() error { return st.Flush(false) })
		if r, ok := wait(ch, 6*time.Second, "Flush with the queue full"); ok {
			if r.err == nil {
				c.setFail("flush-ok-on-full-queue", "Flush returned nil although the queue was full all the time")
			}
			if r.d > 2*time.Second {
				c.setFail("flush-late", fmt.Sprintf("Flush on a full queue returned after %v (ten 10 ms retries expected)", r.d))
			}
		}
	case "accept":
		// S (C11): AcceptStream returns on shutdown
		ch := run(func() error { _, err := sess.AcceptStream(); return err })
		time.Sleep(20 * time.Millisecond)
		sess.Close()
		if r, ok := wait(ch, 5*time.Second, "AcceptStream after Session.Close"); ok && r.err == nil {
			c.setFail("accept-ok-after-close", "AcceptStream returned a stream after the session was closed")
		}
	default:
		return "bad-op"
	}
	return "done"
}

func c11Gen(r *rand.Rand, tier string, idx int) []string {
	if idx%50 == 49 {
		return []string{"t " + []string{"deadline", "data", "peerclose", "sessionclose", "flushfull", "accept", "expired", "tie"}[r.Intn(8)]}
	}
	var ops []string
	n := 4 + r.Intn(30)
	closing := r.Intn(2) == 0
	for i := 0; i < n; i++ {
		switch x := r.Intn(20); {
		case x < 3:
			dl := 0
			if r.Intn(4) == 0 {
				dl = 1
			}
			ops = append(ops, fmt.Sprintf("read %d %d", []int{1, 5, 20, 60}[r.Intn(4)], dl))
		case x < 10:
			ops = append(ops, "r "+[]string{"tok", "tok", "tok", "close", "timer"}[r.Intn(5)])
		case x < 17:
			ops = append(ops, fmt.Sprintf("w %d", 1+r.Intn(30)))
		case x < 18 && closing:
			ops = append(ops, "pclose")
		case x < 19 && closing:
			ops = append(ops, []string{"lclose", "sclose"}[r.Intn(2)])
		default:
			ops = append(ops, "r tok")
		}
	}
	return ops
}
