//go:build verif

package shmipc

// C18: the event connection under scripted kernel IO. A hand-made connEventHandler runs its real onReadReady /
// commitRead / write / writev; the three raw syscalls go through the shim (instrumenter rule R7) which serves reads from a
// known stream and accepts writes with the scripted partial counts / EAGAIN.
// Line protocol (shared with ShmVerif/Drv/C18.lean):
//   rinit <cap>                          read buffer of cap bytes
//   ready <e|z|dN>... | <k>...           one onReadReady: kernel read results; bytes consumed by the successive callbacks
//   write <n> <e|k>...                   write(n bytes) with these kernel results
//   writev <n1,n2,..> <e|k>...           writev(slices) with these kernel results
// plus a concurrent stress of the `writing` flag (spec monitor only).

import (
	"fmt"
	"math/rand"
	"strings"
	"sync"
	"sync/atomic"
	"syscall"
	"time"
)

func init() {
	vProps["C18"] = &vProp{model: "c18", quickN: 500, thoroughN: 6000, gen: c18Gen, exec: c18Exec}
}

func c18RByte(p int) byte { return byte((p*7 + 3) % 251) }
func c18WByte(p int) byte { return byte((p*5 + 1) % 241) }

func c18Hash(b []byte) int {
	a := 7
	for _, x := range b {
		a = (a*131 + int(x) + 1) % 1000003
	}
	return a
}

type c18CB struct {
	c      *connEventHandler
	cons   []int
	shown  []string
	closed bool
	run    *c18Run
	rpos   *int // stream position of the first unconsumed byte
}

func (cb *c18CB) onEventData(buf []byte, conn eventConn) error {
	cb.shown = append(cb.shown, fmt.Sprintf("%d:%d", len(buf), c18Hash(buf)))
	// S: the callback sees exactly the unconsumed bytes followed by the new ones, in order
	for i, x := range buf {
		if x != c18RByte(*cb.rpos+i) {
			cb.run.setFail("window-content", fmt.Sprintf("callback window byte %d is %d, the stream has %d there (window of %d bytes starting at stream position %d)", i, x, c18RByte(*cb.rpos+i), len(buf), *cb.rpos))
			break
		}
	}
	k := 0
	if len(cb.cons) > 0 {
		k = cb.cons[0]
		cb.cons = cb.cons[1:]
	}
	if k > len(buf) {
		k = len(buf)
	}
	*cb.rpos += k
	conn.commitRead(k)
	return nil
}
func (cb *c18CB) onRemoteClose() { cb.closed = true }
func (cb *c18CB) onLocalClose()  {}

type c18Run struct {
	c    *connEventHandler
	rpos int // first unconsumed stream position
	gpos int // next stream position the kernel will deliver
	wpos int
	fail string
	key  string
	tags map[string]bool
}

func (c *c18Run) setFail(key, what string) {
	if c.fail == "" {
		c.fail, c.key = what, key
	}
}

func c18Gen(r *rand.Rand, tier string, idx int) []string {
	var ops []string
	cap := []int{4, 8, 16, 64}[r.Intn(4)]
	ops = append(ops, fmt.Sprintf("rinit %d", cap))
	n := 2 + r.Intn(8)
	for i := 0; i < n; i++ {
		switch r.Intn(3) {
		case 0:
			var rt, ct []string
			k := 1 + r.Intn(6)
			for j := 0; j < k; j++ {
				switch r.Intn(10) {
				case 0:
					rt = append(rt, "e")
				default:
					rt = append(rt, fmt.Sprintf("d%d", 1+r.Intn(3*cap)))
				}
				if rt[len(rt)-1] == "e" {
					break
				}
			}
			for j := 0; j < 3; j++ {
				ct = append(ct, fmt.Sprintf("%d", []int{0, 1, 2, 5, cap, 1000000}[r.Intn(6)]))
			}
			ops = append(ops, "ready "+strings.Join(rt, " ")+" | "+strings.Join(ct, " "))
		case 1:
			sz := 1 + r.Intn(40)
			var res []string
			left := sz
			for left > 0 {
				if r.Intn(4) == 0 {
					res = append(res, []string{"e", "m"}[r.Intn(2)])
					continue
				}
				k := 1 + r.Intn(left+3)
				res = append(res, fmt.Sprintf("%d", k))
				if k > left {
					k = left
				}
				left -= k
			}
			if r.Intn(8) == 0 && len(res) > 1 {
				res = res[:len(res)-1] // kernel stops making progress: the script runs out
			}
			ops = append(ops, fmt.Sprintf("write %d %s", sz, strings.Join(res, " ")))
		default:
			ns := 1 + r.Intn(5)
			if r.Intn(10) == 0 {
				ns = 250 + r.Intn(20) // cross the 256-iovec batch
			}
			var sizes []string
			total := 0
			for j := 0; j < ns; j++ {
				k := 1 + r.Intn(9)
				total += k
				sizes = append(sizes, fmt.Sprintf("%d", k))
			}
			var res []string
			left := total
			for left > 0 {
				if r.Intn(5) == 0 {
					res = append(res, []string{"e", "m"}[r.Intn(2)])
					continue
				}
				k := 1 + r.Intn(left+3)
				if ns > 100 {
					k = 1 + r.Intn(600)
				}
				res = append(res, fmt.Sprintf("%d", k))
				if k > left {
					k = left
				}
				left -= k
			}
			// batches after the first need results too; give plenty
			for j := 0; j < 4; j++ {
				res = append(res, "100000")
			}
			ops = append(ops, fmt.Sprintf("writev %s %s", strings.Join(sizes, ","), strings.Join(res, " ")))
		}
	}
	return ops
}

var c18Stalls int32

func c18ParseRes(ws []string) []int {
	var r []int
	for _, w := range ws {
		if w == "e" {
			r = append(r, -1)
		} else if w == "m" {
			r = append(r, -2)
		} else {
			r = append(r, vAtoi(w))
		}
	}
	return r
}

func c18Exec(ops []string) vResult {
	c := &c18Run{tags: map[string]bool{}}
	var out []string
	defer func() { vSysScript = nil }()
	mk := func(cap int) {
		c.c = &connEventHandler{
			fd:             -1,
			dispatcher:     newEpollDispatcher(),
			readBuffer:     make([]byte, cap),
			onWriteReadyCh: make(chan struct{}, 1),
		}
		c.rpos, c.gpos = 0, 0
	}
	for _, op := range ops {
		f := vFields(op)
		line := func() (line string) {
			defer func() {
				if r := recover(); r != nil {
					c.setFail("panic", fmt.Sprintf("panic in %q: %v", op, r))
					line = "panic"
				}
			}()
			switch {
			case f[0] == "rinit" && len(f) == 2 && vAtoi(f[1]) > 0 && vAtoi(f[1]) <= 1<<20:
				mk(vAtoi(f[1]))
				return "ok"
			case f[0] == "ready" && c.c != nil:
				var rt, ct []string
				bar := false
				for _, w := range f[1:] {
					if w == "|" {
						bar = true
					} else if bar {
						ct = append(ct, w)
					} else {
						rt = append(rt, w)
					}
				}
				sc := &vSysScriptT{}
				total := 0
				for _, w := range rt {
					switch {
					case w == "e":
						sc.reads = append(sc.reads, -1)
					case w == "z":
						sc.reads = append(sc.reads, 0)
					case strings.HasPrefix(w, "d"):
						k := vAtoi(w[1:])
						sc.reads = append(sc.reads, k)
						total += k
					}
				}
				sc.rstream = make([]byte, total)
				for i := range sc.rstream {
					sc.rstream[i] = c18RByte(c.gpos + i)
				}
				cb := &c18CB{c: c.c, run: c, rpos: &c.rpos}
				for _, w := range ct {
					cb.cons = append(cb.cons, vAtoi(w))
				}
				c.c.callback = cb
				vSysScript = sc
				capBefore := len(c.c.readBuffer)
				c.c.onReadReady()
				vSysScript = nil
				c.gpos += total - len(sc.rstream)
				if len(c.c.readBuffer) > capBefore {
					c.tags["buffer-expanded"] = true
				}
				if c.c.readStartOff > 0 {
					c.tags["partial-consumption"] = true
				}
				// S: window bookkeeping
				if c.c.readStartOff < 0 || c.c.readStartOff > c.c.readEndOff || c.c.readEndOff > len(c.c.readBuffer) {
					c.setFail("window-bounds", fmt.Sprintf("start=%d end=%d len=%d", c.c.readStartOff, c.c.readEndOff, len(c.c.readBuffer)))
				}
				if c.c.readEndOff-c.c.readStartOff != c.gpos-c.rpos {
					c.setFail("window-size", fmt.Sprintf("window holds %d bytes, received-consumed = %d", c.c.readEndOff-c.c.readStartOff, c.gpos-c.rpos))
				}
				cl := 0
				if cb.closed {
					cl = 1
				}
				return fmt.Sprintf("shown=%s start=%d end=%d cap=%d closed=%d", strings.Join(cb.shown, ","), c.c.readStartOff, c.c.readEndOff, len(c.c.readBuffer), cl)
			case (f[0] == "write" || f[0] == "writev") && len(f) >= 2:
				if c.c == nil {
					mk(16)
				}
				var slices [][]byte
				var all []byte
				if f[0] == "write" {
					n := vAtoi(f[1])
					d := make([]byte, n)
					for i := range d {
						d[i] = c18WByte(c.wpos + i)
					}
					c.wpos += n
					slices = [][]byte{d}
					all = d
				} else {
					for _, w := range strings.Split(f[1], ",") {
						n := vAtoi(w)
						d := make([]byte, n)
						for i := range d {
							d[i] = c18WByte(c.wpos + i)
						}
						c.wpos += n
						slices = append(slices, d)
						all = append(all, d...)
					}
					if len(slices) > 256 {
						c.tags["iovec-batch-crossed"] = true
					}
				}
				sc := &vSysScriptT{writes: c18ParseRes(f[2:])}
				conn := c.c
				// the kernel's answer to EAGAIN is a later event for the connection: write-ready alone (`e`), or write-ready
				// merged with read-ready in ONE event (`m`: traffic in the other direction arrived in the same epoll round;
				// the read finds nothing new). It goes through the real handleEvent.
				conn.callback = &c18CB{c: conn, run: c, rpos: &c.rpos} // consumes nothing
				sc.onEagainWrite = func(kind int) {
					c.tags["eagain-on-write"] = true
					ev := syscall.EPOLLOUT
					if kind == -2 {
						ev |= syscall.EPOLLIN
						c.tags["write-ready-merged-with-read-ready"] = true
					}
					conn.handleEvent(ev, conn.dispatcher)
				}
				vSysScript = sc
				var err error
				fin := make(chan error, 1)
				go func() {
					if f[0] == "write" {
						fin <- conn.write(slices[0])
					} else {
						fin <- conn.writev(slices...)
					}
				}()
				// (once a few writers were found asleep in this process the watchdog stops being generous: a broken wake-up
				// makes every such case wait, and the search should not take hours)
				patience := 3 * time.Second
				if atomic.LoadInt32(&c18Stalls) >= 3 {
					patience = 150 * time.Millisecond
				}
				select {
				case err = <-fin:
				case <-time.After(patience):
					atomic.AddInt32(&c18Stalls, 1)
					// S (C18): a writer that met EAGAIN continues when the kernel reports the connection writable
					c.setFail("write-never-woken", fmt.Sprintf("%s: the kernel reported the connection writable after EAGAIN, the writer is still asleep %v later (%d of %d bytes written)", f[0], patience, len(sc.wout), len(all)))
					atomic.StoreUint32(&conn.isClose, 1)
					asyncNotify(conn.onWriteReadyCh)
					err = <-fin
				}
				vSysScript = nil
				// S: what the kernel accepted is a prefix of the data, each byte once, in order; complete iff no error
				if len(sc.wout) > len(all) || string(sc.wout) != string(all[:len(sc.wout)]) {
					c.setFail("write-content", fmt.Sprintf("%s: the kernel was handed %d bytes that are not a prefix of the %d data bytes", f[0], len(sc.wout), len(all)))
				}
				done := 0
				if err == nil {
					done = 1
					if len(sc.wout) != len(all) {
						c.setFail("write-short", fmt.Sprintf("%s returned nil but only %d of %d bytes were written", f[0], len(sc.wout), len(all)))
					}
				} else {
					c.tags["write-stalled"] = true
				}
				if len(sc.wout) < len(all) {
					c.tags["partial-write"] = true
				}
				return fmt.Sprintf("acc=%d:%d calls=%d done=%d", len(sc.wout), c18Hash(sc.wout), sc.calls, done)
			}
			return "bad-op"
		}()
		out = append(out, line)
	}
	if c.fail == "" {
		c18WriterStress(c)
	}
	var tags []string
	for t := range c.tags {
		tags = append(tags, t)
	}
	return vResult{out: out, specFail: c.fail, key: c.key, tags: tags}
}

// c18ExclConn detects two threads inside the connection's write at the same time.
type c18ExclConn struct {
	vStubConn
	inside  int32
	overlap int32
	n       int32
}

func (c *c18ExclConn) write(data []byte) error {
	if atomic.AddInt32(&c.inside, 1) > 1 {
		atomic.StoreInt32(&c.overlap, 1)
	}
	for i := 0; i < 20; i++ {
		_ = i
	}
	atomic.AddInt32(&c.n, 1)
	atomic.AddInt32(&c.inside, -1)
	return nil
}

// S for the writer mutex: concurrent fast-path writers (wakeUpPeer with the flag cleared each time, hotRestart) and
// send-loop items on one real session never overlap inside the connection, and every event is written.
func c18WriterStress(c *c18Run) {
	qa, _ := vQueuePair(8)
	conn := &c18ExclConn{}
	s := vBareSession(true, qa, nil, conn)
	go s.send()
	defer close(s.shutdownCh)
	var wg sync.WaitGroup
	const W, N = 4, 30
	for w := 0; w < W; w++ {
		wg.Add(1)
		go func(w int) {
			defer wg.Done()
			for i := 0; i < N; i++ {
				switch (w + i) % 3 {
				case 0:
					s.hotRestart(uint64(i), typeHotRestart)
				case 1:
					atomic.StoreUint32(s.queueManager.sendQueue.workingFlag, 0)
					s.wakeUpPeer()
				default:
					s.waitForSend(nil, pollingEventWithVersion[2])
				}
			}
		}(w)
	}
	wg.Wait()
	for i := 0; i < 2000 && len(s.sendCh) > 0; i++ {
		time.Sleep(100 * time.Microsecond)
	}
	time.Sleep(200 * time.Microsecond)
	if atomic.LoadInt32(&conn.overlap) != 0 {
		c.setFail("writers-interleave", "two writers were inside the control connection's write at the same time")
	}
}
