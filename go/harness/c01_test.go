//go:build verif

package shmipc

// C01 / C02: bufferList.pop / push under the controlled scheduler, single-access granularity.
// Line protocol (shared with ShmVerif/Drv/C01.lean):
//   init <n>                     free list with n slots
//   thread pop push:0 pop ...    a thread with its program (push:k recycles the k-th slot it holds)
//   step <t>                     grant one step to thread t
//   finish                       run thread 0, 1, ... to completion in that order

import (
	"bytes"
	"fmt"
	"math/rand"
	"os"
	"strings"
	"sync"
	"sync/atomic"

	syscall "golang.org/x/sys/unix"
)

const c01SliceCap = 16

func init() {
	vProps["C01"] = &vProp{model: "c01", quickN: 500, thoroughN: 8000, gen: c01Gen, exec: c01Exec, systematic: c01Systematic}
	vProps["C02"] = vProps["C01"]
}

func c01Label(site string) string {
	switch {
	case site == "done" || site == "start":
		return site
	case strings.Contains(site, "LoadUint32(b.head)"):
		return "ld_head"
	case strings.Contains(site, "LoadUint32(b.tail)"):
		return "ld_tail"
	case strings.Contains(site, "AddInt32(b.size, -1)"):
		return "dec_size"
	case strings.Contains(site, "AddInt32(b.size, 1)"):
		return "inc_size"
	case strings.Contains(site, "AddInt32(b.counter, 1)"):
		return "inc_counter"
	case strings.Contains(site, "AddInt32(b.counter, -1)"):
		return "dec_counter"
	case strings.Contains(site, "CompareAndSwapUint32(b.head"):
		return "cas_head"
	case strings.Contains(site, "CompareAndSwapUint32(b.tail"):
		return "cas_tail"
	case site == "hasNext#0":
		return "hasNext"
	case site == "nextBufferOffset#0":
		return "next"
	case site == "clearFlag#0":
		return "clearFlag"
	case site == "setInUsed#0":
		return "setInUsed"
	case site == "linkNext#0":
		return "link_next"
	case site == "linkNext#1":
		return "link_flag"
	case site == "*b.size":
		return "plain_size"
	}
	return "?" + site
}

func c01Gen(r *rand.Rand, tier string, idx int) []string {
	if idx%200 == 57 {
		return []string{fmt.Sprintf("xcreate %d", 1+r.Intn(8))}
	}
	if idx%250 == 113 {
		return []string{fmt.Sprintf("rrace %d %d", 20+r.Intn(40), 400)}
	}
	if idx%10 == 9 {
		cfg := []string{"16:6", "8:6,32:4", "16:4,64:3", "8:3,16:3,64:2", "32:2"}[r.Intn(5)]
		ops := []string{"mgr " + cfg}
		out := 0
		for i := 0; i < 6+r.Intn(20); i++ {
			if out > 0 && r.Intn(3) == 0 {
				ops = append(ops, fmt.Sprintf("r %d", r.Intn(out)))
				out--
			} else {
				ops = append(ops, fmt.Sprintf("w %d", []int{1, 7, 8, 9, 16, 17, 31, 32, 33, 40, 64, 65, 100, 130, 200}[r.Intn(15)]))
				out++
			}
		}
		return ops
	}
	n := 1 + r.Intn(5)
	nth := 1 + r.Intn(3)
	ops := []string{fmt.Sprintf("init %d", n)}
	total := 0
	for t := 0; t < nth; t++ {
		k := 1 + r.Intn(6)
		var p []string
		held := 0
		for i := 0; i < k; i++ {
			if held > 0 && r.Intn(2) == 0 {
				p = append(p, fmt.Sprintf("push:%d", r.Intn(held)))
				held--
			} else if r.Intn(12) == 0 {
				p = append(p, fmt.Sprintf("push:%d", r.Intn(3)))
			} else {
				p = append(p, "pop")
				held++
			}
		}
		total += k
		ops = append(ops, "thread "+strings.Join(p, " "))
	}
	steps := r.Intn(total*10 + 8)
	fav := r.Intn(nth)
	for i := 0; i < steps; i++ {
		if r.Intn(5) == 0 {
			fav = r.Intn(nth)
		}
		w := fav
		if r.Intn(6) == 0 {
			w = r.Intn(nth)
		}
		ops = append(ops, fmt.Sprintf("step %d", w))
	}
	return append(ops, "finish")
}

// systematic: all schedules with at most `pb` preemptions for a few small programs (thorough tier), generated
// as explicit step lists by simulating nothing: we enumerate interleavings of two threads by run-length blocks.
func c01Systematic(tier string, emit func([]string) bool) {
	progs := [][2]string{
		{"pop push:0 pop", "pop push:0"},
		{"pop pop push:0 push:0", "pop push:0 pop"},
		{"pop", "pop pop push:1 pop push:0 pop"},
	}
	maxBlocks := 3
	lens := []int{1, 2, 3, 5, 7, 9, 12, 16, 40}
	if tier == "thorough" {
		maxBlocks = 4
		lens = []int{1, 2, 3, 4, 5, 6, 7, 8, 9, 10, 12, 14, 17, 40}
	}
	for _, n := range []int{2, 3, 4} {
		for _, pg := range progs {
			var rec func(blocks []int)
			rec = func(blocks []int) {
				if len(blocks) > 0 {
					ops := []string{fmt.Sprintf("init %d", n), "thread " + pg[0], "thread " + pg[1]}
					for bi, l := range blocks {
						for k := 0; k < l; k++ {
							ops = append(ops, fmt.Sprintf("step %d", bi%2))
						}
					}
					ops = append(ops, "finish")
					emit(ops)
				}
				if len(blocks) >= maxBlocks {
					return
				}
				for _, l := range lens {
					rec(append(append([]int{}, blocks...), l))
				}
			}
			rec(nil)
		}
	}
}

type c01Thread struct {
	prog []string
	held []*bufferSlice
	sig  []byte // signature byte written into each held slot's payload, parallel to held
	res  []string
	th   *vThread
	lver int
}

type c01Run struct {
	n       int
	stride  uint32
	mem     []byte
	b       *bufferList
	ths     []*c01Thread
	sched   *vScheduler
	started bool
	hver    int
	aba     bool
	fail    string
	key     string
	tags    map[string]bool
	nextSig byte
}

func (c *c01Run) setFail(key, what string) {
	if c.fail == "" {
		if c.aba {
			key = "aba-stale-head-cas"
			what = "[execution contains a head CAS that succeeded with a stale head (ABA)] " + what
		}
		c.fail, c.key = what, key
	}
}

func (c *c01Run) idx(s *bufferSlice) int {
	return int((s.offsetInShm - c.b.bufferRegionOffsetInShm) / c.stride)
}

func (c *c01Run) snap() string {
	var sl []string
	for i := 0; i < c.n; i++ {
		h := bufferHeader(c.b.bufferRegion[uint32(i)*c.stride : uint32(i)*c.stride+bufferHeaderSize])
		nx := leU32(h[nextBufferOffset:])
		nxs := fmt.Sprintf("%d", nx/c.stride)
		if nx%c.stride != 0 {
			nxs = fmt.Sprintf("off%d", nx)
		}
		sl = append(sl, fmt.Sprintf("%s:%d", nxs, h[bufferFlagOffset]))
	}
	return fmt.Sprintf("head=%d tail=%d size=%d cnt=%d slots=%s", *c.b.head/c.stride, *c.b.tail/c.stride, *c.b.size, *c.b.counter, strings.Join(sl, ","))
}

func (c *c01Run) heldCount() int {
	k := 0
	for _, t := range c.ths {
		k += len(t.held)
	}
	return k
}

func (c *c01Run) onPopped(t *c01Thread, ti int, s *bufferSlice) {
	// geometry
	off := s.offsetInShm - c.b.bufferRegionOffsetInShm
	if off%c.stride != 0 || int(off/c.stride) >= c.n || s.cap != c01SliceCap || len(s.data) != c01SliceCap || cap(s.data) < c01SliceCap {
		c.setFail("geometry", fmt.Sprintf("pop returned a buffer not at a slot boundary / outside the region / wrong capacity: off=%d cap=%d len=%d", off, s.cap, len(s.data)))
	}
	i := c.idx(s)
	for tj, o := range c.ths {
		for _, h := range o.held {
			if c.idx(h) == i {
				c.setFail("double-owner", fmt.Sprintf("thread %d was handed slot %d which thread %d still holds", ti, i, tj))
			}
		}
	}
	c.nextSig++
	for k := range s.data {
		s.data[k] = c.nextSig
	}
	t.held = append(t.held, s)
	t.sig = append(t.sig, c.nextSig)
}

func (c *c01Run) checkIntact(t *c01Thread, ti, k int) {
	s := t.held[k]
	for _, x := range s.data {
		if x != t.sig[k] {
			c.setFail("payload-altered", fmt.Sprintf("payload of slot %d held by thread %d was altered by somebody else", c.idx(s), ti))
			return
		}
	}
	if s.bufferHeader[bufferFlagOffset] != sliceInUsedFlag || leU32(s.bufferHeader[bufferCapOffset:]) != c01SliceCap {
		c.setFail("header-altered", fmt.Sprintf("header of slot %d held by thread %d was altered by somebody else (flag=%d)", c.idx(s), ti, s.bufferHeader[bufferFlagOffset]))
	}
}

func (c *c01Run) start() {
	if c.started {
		return
	}
	c.started = true
	c.sched = &vScheduler{}
	vS = c.sched
	for ti, t := range c.ths {
		ti, t := ti, t
		t.th = c.sched.newThread(func() {
			for _, op := range t.prog {
				if op == "pop" {
					s, err := c.b.pop()
					if err != nil {
						t.res = append(t.res, "nomore")
						c.tags["pop-failed"] = true
					} else {
						t.res = append(t.res, fmt.Sprintf("got:%d", c.idx(s)))
						c.onPopped(t, ti, s)
					}
				} else if strings.HasPrefix(op, "push:") {
					k := vAtoi(op[5:])
					if k >= len(t.held) {
						t.res = append(t.res, "skipped")
						continue
					}
					c.checkIntact(t, ti, k)
					s := t.held[k]
					t.held = append(append([]*bufferSlice{}, t.held[:k]...), t.held[k+1:]...)
					t.sig = append(append([]byte{}, t.sig[:k]...), t.sig[k+1:]...)
					i := c.idx(s)
					c.b.push(s)
					t.res = append(t.res, fmt.Sprintf("pushed:%d", i))
				}
			}
		})
	}
	for _, t := range c.sched.threads {
		c.sched.step(t)
	}
}

func (c *c01Run) step(ti int) string {
	if ti < 0 || ti >= len(c.ths) || c.ths[ti].th.done {
		return "idle"
	}
	t := c.ths[ti]
	site := t.th.site
	lab := c01Label(site)
	if lab == "ld_head" {
		t.lver = c.hver
	}
	next := c.sched.step(t.th)
	if lab == "cas_head" && next == "clearFlag#0" {
		if t.lver != c.hver {
			c.aba = true
			c.tags["aba"] = true
		}
		c.hver++
	}
	if lab == "cas_head" && next != "clearFlag#0" {
		c.tags["head-cas-failed"] = true
	}
	if lab == "cas_tail" && next != "linkNext#0" {
		c.tags["tail-cas-failed"] = true
	}
	if lab == "plain_size" {
		c.tags["last-slot-path"] = true
	}
	if t.th.panicV != nil {
		c.setFail("panic", fmt.Sprintf("panic in thread %d: %v", ti, t.th.panicV))
	}
	// C02: the counter never leads
	if int(*c.b.size)+c.heldCount() > c.n {
		c.setFail("count-exceeds", fmt.Sprintf("free count %d + held %d exceeds capacity %d", *c.b.size, c.heldCount(), c.n))
	}
	return lab
}

func (c *c01Run) walk() []int {
	var w []int
	cur := *c.b.head
	for k := 0; k <= c.n; k++ {
		if cur%c.stride != 0 || int(cur/c.stride) >= c.n {
			w = append(w, -1)
			return w
		}
		w = append(w, int(cur/c.stride))
		h := bufferHeader(c.b.bufferRegion[cur : cur+bufferHeaderSize])
		if h[bufferFlagOffset]&hasNextBufferFlag == 0 {
			return w
		}
		cur = leU32(h[nextBufferOffset:])
	}
	return w
}

func c01Ints(w []int) string {
	var s []string
	for _, x := range w {
		s = append(s, fmt.Sprintf("%d", x))
	}
	return strings.Join(s, ",")
}

func (c *c01Run) finishAll() {
	for ti, t := range c.ths {
		for k := 0; k < 200000 && !t.th.done; k++ {
			c.step(ti)
		}
		if !t.th.done {
			c.setFail("hang", fmt.Sprintf("thread %d did not finish when run alone", ti))
		}
	}
}

// quiescence (C02): recycle everything still held, then size == cap and the chain visits every slot once, ending at tail
func (c *c01Run) quiesce() {
	vS = nil
	for ti, t := range c.ths {
		for k := range t.held {
			c.checkIntact(t, ti, k)
		}
		for _, s := range t.held {
			c.b.push(s)
		}
		t.held = nil
	}
	if int(*c.b.size) != c.n {
		c.setFail("size-at-quiescence", fmt.Sprintf("all buffers recycled but free count=%d capacity=%d", *c.b.size, c.n))
	}
	w := c.walk()
	seen := map[int]bool{}
	okWalk := len(w) == c.n
	for _, x := range w {
		if x < 0 || seen[x] {
			okWalk = false
		}
		seen[x] = true
	}
	if okWalk && uint32(w[len(w)-1])*c.stride != *c.b.tail {
		okWalk = false
	}
	if !okWalk {
		c.setFail("chain-at-quiescence", fmt.Sprintf("all buffers recycled, size=%d cap=%d but the chain from head visits %v (tail=%d)", *c.b.size, c.n, w, *c.b.tail/c.stride))
	}
}

// ---- manager-level sequential scenario (no model; C02's "recycle-chain" clause on the real bufferManager) ----
//   mgr <cap:num,...>     exact-fit memory with these size classes
//   w <n>                 a writer allocates a message of n bytes (multi-slice chain when needed) and links it (done)
//   r <i>                 the receiving side looks the i-th outstanding message up by its offset and recycles the chain
// at the end everything is recycled: every class must offer its full capacity and its chain must visit every slot once
func c01Mgr(ops []string) vResult {
	var out []string
	fail, key := "", ""
	setFail := func(k, w string) {
		if fail == "" {
			fail, key = w, k
		}
	}
	var bm *bufferManager
	var roots []uint32
	// S (C01): every buffer handed out - by the allocator to a writer, by readBufferSlice to the receiving side - lies
	// wholly inside one slot of its size-class region, at a slot boundary, and is exactly as large as it advertises
	geom := func(sl *bufferSlice, how string) {
		if sl == nil || !sl.isFromShm {
			return
		}
		off := int(sl.offsetInShm)
		ok := false
		for _, l := range bm.lists {
			start, per := int(l.bufferRegionOffsetInShm), int(*l.capPerBuffer)+bufferHeaderSize
			if off >= start && off < start+len(l.bufferRegion) {
				ok = (off-start)%per == 0 && int(sl.cap) == int(*l.capPerBuffer)
			}
		}
		if !ok {
			setFail("slice-outside-slot", fmt.Sprintf("%s: a buffer at offset %d with capacity %d is not a slot of any size class", how, off, sl.cap))
			return
		}
		if len(sl.data) != int(sl.cap) || (len(sl.data) > 0 && &sl.data[0] != &bm.mem[off+bufferHeaderSize]) {
			setFail("slice-exceeds-slot", fmt.Sprintf("%s: the buffer at offset %d advertises %d bytes but its payload window has %d bytes (a write through it can reach the neighbouring slots)", how, off, sl.cap, len(sl.data)))
		}
	}
	chainGeom := func(root uint32, how string) {
		for n, off := 0, root; n < 4096; n++ {
			sl, err := bm.readBufferSlice(off)
			if err != nil {
				return
			}
			geom(sl, how)
			if !sl.hasNext() {
				return
			}
			off = sl.nextBufferOffset()
		}
	}
	for _, op := range ops {
		f := vFields(op)
		switch {
		case len(f) == 2 && f[0] == "mgr" && bm == nil:
			caps, nums := c06Classes(strings.Split(f[1], ","))
			if len(caps) == 0 {
				out = append(out, "bad-op")
				continue
			}
			_, b, _, err := c06BuildMem(caps, nums)
			if err != nil {
				out = append(out, "bad-op")
				continue
			}
			bm = b
			out = append(out, "ok")
		case len(f) == 2 && f[0] == "w" && bm != nil:
			n := vAtoi(f[1])
			if n < 1 || n > 1<<14 {
				out = append(out, "bad-op")
				continue
			}
			lb := newEmptyLinkedBuffer(bm)
			lb.WriteBytes(make([]byte, n))
			if !lb.isFromShareMemory() {
				lb.recycle() // did not fit into share memory: give back what was taken
				out = append(out, "nomem")
				continue
			}
			for e := lb.sliceList.front(); e != nil; e = e.next() {
				geom(e, "allocated for a writer")
			}
			lb.done(false)
			roots = append(roots, lb.rootBufOffset())
			chainGeom(lb.rootBufOffset(), "readBufferSlice on the receiving side")
			out = append(out, "ok")
		case len(f) == 2 && f[0] == "r" && bm != nil:
			i := vAtoi(f[1])
			if i < 0 || i >= len(roots) {
				out = append(out, "noop")
				continue
			}
			sl, err := bm.readBufferSlice(roots[i])
			roots = append(roots[:i], roots[i+1:]...)
			if err != nil {
				// S (C02): a message the allocator handed out can be found again and given back
				setFail("message-not-readable", fmt.Sprintf("readBufferSlice(%d) of an outstanding message failed: %v", roots, err))
				out = append(out, "err")
				continue
			}
			bm.recycleBuffers(sl)
			out = append(out, "ok")
		default:
			out = append(out, "bad-op")
		}
	}
	if bm != nil {
		for _, off := range roots {
			if sl, err := bm.readBufferSlice(off); err == nil {
				bm.recycleBuffers(sl)
			} else {
				setFail("message-not-readable", fmt.Sprintf("readBufferSlice(%d) of an outstanding message failed: %v", off, err))
			}
		}
		// S (C02): whenever every allocated buffer has been recycled each class offers its full capacity again and
		// the free chain visits every slot exactly once
		for ci, l := range bm.lists {
			if int(*l.size) != int(*l.cap) {
				setFail("mgr-leak", fmt.Sprintf("every message recycled, class %d (slices of %d bytes) offers %d of %d buffers", ci, *l.capPerBuffer, *l.size, *l.cap))
			}
			if n := computeFreeSliceNum(l); n != int(*l.cap) {
				setFail("mgr-chain", fmt.Sprintf("every message recycled, the free chain of class %d visits %d slots, capacity %d", ci, n, *l.cap))
			}
		}
	}
	return vResult{out: out, specFail: fail, key: key, tags: []string{"manager-level"}, noModel: true}
}

var c01Seq uint64

// c01SecondCreator: a second PROCESS creates a buffer manager on a share-memory path whose memory is live (the first
// creator still holds buffers). Another process does not share this process' table of managers, which is imitated by
// hiding the entry for the duration of the second call. The second creation must be refused and must not touch the memory:
// otherwise both processes hand out the same buffers. ops: "xcreate <file|memfd-not-applicable> <held>"
func c01SecondCreator(f []string) vResult {
	res := vResult{noModel: true, out: []string{"done"}}
	held := vAtoi(f[1])
	if held < 1 || held > 8 {
		res.out = []string{"bad-op"}
		return res
	}
	path := fmt.Sprintf("/dev/shm/verif_c01_%d_%d_buffer", os.Getpid(), atomic.AddUint64(&c01Seq, 1))
	os.Remove(path)
	pairs := []*SizePercentPair{{Size: 1024, Percent: 50}, {Size: 4096, Percent: 50}}
	bm1, err := getGlobalBufferManager(path, 1<<20, true, pairs)
	if err != nil {
		res.specFail, res.key = "creating the buffer manager failed: "+err.Error(), "setup"
		return res
	}
	defer func() {
		addGlobalBufferManagerRefCount(path, -1)
		os.Remove(path)
	}()
	type own struct {
		b   *bufferSlice
		sig []byte
	}
	var mine []own
	for i := 0; i < held; i++ {
		b, err := bm1.allocShmBuffer(1000)
		if err != nil {
			break
		}
		sig := bytes.Repeat([]byte{byte(0xa0 + i)}, 1000)
		b.append(sig...)
		b.update()
		mine = append(mine, own{b, sig})
	}
	// the second process
	bufferManagers.Lock()
	saved := bufferManagers.bms[path]
	delete(bufferManagers.bms, path)
	bufferManagers.Unlock()
	bm2, err2 := getGlobalBufferManager(path, 1<<20, true, pairs)
	bufferManagers.Lock()
	bufferManagers.bms[path] = saved
	bufferManagers.Unlock()
	if err2 == nil {
		// S (C01): nobody but the holder alters a held buffer; no second owner
		for i, o := range mine {
			if !bytes.Equal(o.b.data[o.b.start:o.b.start+1000], o.sig) || o.b.size() != 1000 && false {
				res.specFail = fmt.Sprintf("a second creator on the same path re-initialised live memory: held buffer %d was altered", i)
				res.key = "second-creator-reinitialises-live-memory"
			}
		}
		for k := 0; k < held && res.specFail == ""; k++ {
			nb, err := bm2.allocShmBuffer(1000)
			if err != nil {
				break
			}
			for i, o := range mine {
				if nb.offsetInShm == o.b.offsetInShm {
					res.specFail = fmt.Sprintf("a second creator on the same path was accepted and hands out the buffer at offset %d, which the first creator's holder %d still owns", nb.offsetInShm, i)
					res.key = "second-creator-reinitialises-live-memory"
				}
			}
		}
		if res.specFail == "" {
			res.specFail, res.key = "a second creation on a path whose memory is live was accepted (exclusive creation expected)", "second-creator-reinitialises-live-memory"
		}
		syscall.Munmap(bm2.mem)
	}
	res.tags = []string{"second-creator-refused"}
	return res
}

// rrace <pinned> <rounds>: two goroutines give the same receive buffer back at the same time - Stream.close -> clean ->
// recvBuf.recycle() racing the recycle() that fillDataToReadBuffer does for data arriving on a stream that is being closed
// (the case linkedBuffer.recycleMux exists for) - while the buffer has <pinned> parked slices. Real parallelism, no
// scheduler: afterwards every slot must be in the free list exactly once.
func c01RecycleRace(f []string) vResult {
	res := vResult{noModel: true, out: []string{"done"}, tags: []string{"concurrent-recycle"}}
	pinned, rounds := vAtoi(f[1]), vAtoi(f[2])
	if pinned < 1 || pinned > 60 || rounds < 1 || rounds > 5000 {
		res.out = []string{"bad-op"}
		return res
	}
	for r := 0; r < rounds && res.specFail == ""; r++ {
		_, bm, _, err := c06BuildMem([]int{16}, []int{64})
		if err != nil {
			res.specFail, res.key = err.Error(), "setup"
			return res
		}
		lb := newEmptyLinkedBuffer(bm)
		for i := 0; i < pinned; i++ {
			b, err := bm.allocShmBuffer(16)
			if err != nil {
				res.specFail, res.key = err.Error(), "setup"
				return res
			}
			lb.pinnedList.pushBack(b)
		}
		start := make(chan struct{})
		var wg sync.WaitGroup
		var pan atomic.Value
		var ready int32
		for g := 0; g < 2; g++ {
			wg.Add(1)
			go func() {
				defer wg.Done()
				defer func() {
					if e := recover(); e != nil {
						pan.Store(fmt.Sprint(e))
					}
				}()
				<-start
				// a spinning barrier: both goroutines are ON a processor when they go (on a loaded machine a channel alone
				// lets one finish before the other is scheduled, and nothing races)
				atomic.AddInt32(&ready, 1)
				for i := 0; atomic.LoadInt32(&ready) < 2 && i < 50000000; i++ {
				}
				lb.recycle()
			}()
		}
		close(start)
		wg.Wait()
		l := bm.lists[0]
		if p := pan.Load(); p != nil {
			res.specFail, res.key = fmt.Sprintf("round %d: two concurrent recycle() calls on one buffer with %d parked slices: panic: %v", r, pinned, p), "concurrent-recycle-double-free"
			break
		}
		// S (C01/C02): every slot is free exactly once
		seen := map[uint32]bool{}
		n, off, circ := 0, atomic.LoadUint32(l.head), false
		for n <= 2*int(*l.cap) {
			if seen[off] {
				circ = true
				break
			}
			seen[off] = true
			n++
			if int(off)+bufferHeaderSize > len(l.bufferRegion) {
				circ = true
				break
			}
			bh := bufferHeader(l.bufferRegion[off:])
			if !bh.hasNext() {
				break
			}
			off = bh.nextBufferOffset()
		}
		if int(*l.size) != int(*l.cap) || n != int(*l.cap) || circ {
			res.specFail = fmt.Sprintf("round %d: two concurrent recycle() calls on one buffer with %d parked slices; nothing is held any more, yet the free list says size=%d of %d and its chain visits %d slots (circular or out of range: %v): a parked slice was given back twice", r, pinned, *l.size, *l.cap, n, circ)
			res.key = "concurrent-recycle-double-free"
		}
	}
	return res
}

func c01Exec(ops []string) vResult {
	if len(ops) == 1 && strings.HasPrefix(ops[0], "rrace ") {
		if f := vFields(ops[0]); len(f) == 3 {
			return c01RecycleRace(f)
		}
	}
	if len(ops) == 1 && strings.HasPrefix(ops[0], "xcreate ") {
		if f := vFields(ops[0]); len(f) == 2 {
			return c01SecondCreator(f)
		}
	}
	if len(ops) > 0 && strings.HasPrefix(ops[0], "mgr ") {
		return c01Mgr(ops)
	}
	c := &c01Run{tags: map[string]bool{}}
	var out []string
	defer func() { vS = nil }()
	for _, op := range ops {
		f := vFields(op)
		switch {
		case len(f) == 2 && f[0] == "init" && !c.started && vAtoi(f[1]) >= 1 && vAtoi(f[1]) <= 64:
			c.n = vAtoi(f[1])
			c.stride = c01SliceCap + bufferHeaderSize
			c.mem = make([]byte, bufferListHeaderSize+c.n*int(c.stride))
			b, err := createFreeBufferList(uint32(c.n), c01SliceCap, c.mem, 0)
			if err != nil {
				out = append(out, "err")
				continue
			}
			c.b = b
			c.ths = nil
			out = append(out, "ok")
		case len(f) >= 1 && f[0] == "thread" && !c.started && c.b != nil:
			c.ths = append(c.ths, &c01Thread{prog: f[1:]})
			out = append(out, "ok")
		case len(f) == 2 && f[0] == "step" && c.b != nil:
			c.start()
			lab := c.step(vAtoi(f[1]))
			out = append(out, lab+" "+c.snap())
		case len(f) == 1 && f[0] == "finish" && c.b != nil:
			c.start()
			c.finishAll()
			var rs []string
			for _, t := range c.ths {
				var hs []int
				for _, h := range t.held {
					hs = append(hs, c.idx(h))
				}
				rs = append(rs, "["+strings.Join(t.res, ",")+"]held["+c01Ints(hs)+"]")
			}
			out = append(out, fmt.Sprintf("res=%s aba=%v walk=%s %s", strings.Join(rs, ";"), c.aba, c01Ints(c.walk()), c.snap()))
		default:
			out = append(out, "bad-op")
		}
	}
	if c.started {
		c.finishAll()
		c.quiesce()
	}
	var tags []string
	for t := range c.tags {
		tags = append(tags, t)
	}
	return vResult{out: out, specFail: c.fail, key: c.key, tags: tags}
}
