//go:build verif

package shmipc

// C05: the wake-up protocol (put ; wakeUpPeer  vs  handlePolling ; markNotWorking) under the controlled scheduler.
// Two hand-made in-package sessions share one queue memory; the control connection is an in-memory stub.
// Line protocol (shared with ShmVerif/Drv/C05.lean):
//   init <cap> <k0> <k1> ...     queue capacity, and one producer per k (it performs k puts, each followed by wakeUpPeer)
//   step <t|c>                   one step of producer t / of the consumer's event loop
//   finish                       producers in order to completion, then the consumer until idle with nothing in flight

import (
	"encoding/binary"
	"fmt"
	"io"
	"math/rand"
	"strings"
	"sync"
	"sync/atomic"
	"time"
)

func init() {
	vProps["C05"] = &vProp{model: "c05", quickN: 600, thoroughN: 10000, gen: c05Gen, exec: c05Exec}
}

// vStubConn: in-memory eventConn. Everything written is appended to `wr` (one entry per write call).
type vStubConn struct {
	mu     sync.Mutex
	wr     [][]byte
	closed bool
}

func (c *vStubConn) commitRead(n int)                       {}
func (c *vStubConn) setCallback(cb eventConnCallback) error { return nil }
func (c *vStubConn) write(data []byte) error {
	c.mu.Lock()
	c.wr = append(c.wr, append([]byte{}, data...))
	c.mu.Unlock()
	return nil
}
func (c *vStubConn) writev(data ...[]byte) error {
	var all []byte
	for _, d := range data {
		all = append(all, d...)
	}
	return c.write(all)
}
func (c *vStubConn) close() error { c.closed = true; return nil }

// vBareSession builds a Session object without sockets, goroutines or dispatcher.
func vBareSession(isClient bool, qm *queueManager, bm *bufferManager, conn eventConn) *Session {
	cfg := DefaultConfig()
	cfg.LogOutput = io.Discard
	s := &Session{
		config:                cfg,
		logger:                newSessionLogger(isClient, io.Discard),
		streams:               make(map[uint32]*Stream, 16),
		sendCh:                make(chan sendReady, 4096),
		notifyContinueWriteCh: make(chan struct{}, 1),
		shutdownCh:            make(chan struct{}),
		isClient:              isClient,
		communicationVersion:  protoVersion,
		queueManager:          qm,
		bufferManager:         bm,
		eventConn:             conn,
		handshakeDone:         true,
		name:                  "verif",
	}
	if !isClient {
		s.acceptCh = make(chan *Stream, 1024)
		s.nextStreamID = 2
	} else {
		s.nextStreamID = 1
	}
	return s
}

// vQueuePair: one memory, creator's view and mapper's view (cross-wired as the code does).
func vQueuePair(cap uint32) (*queueManager, *queueManager) {
	size := countQueueMemSize(cap) * queueCount
	mem := make([]byte, size)
	a := &queueManager{sendQueue: createQueueFromBytes(mem[:size/2], cap), recvQueue: createQueueFromBytes(mem[size/2:], cap), mem: mem}
	b := &queueManager{sendQueue: mappingQueueFromBytes(mem[size/2:]), recvQueue: mappingQueueFromBytes(mem[:size/2]), mem: mem}
	return a, b
}

func c05Filter(site string) bool {
	switch {
	case site == "lock", site == "writeEvent", site == "cidle":
		return true
	case strings.HasPrefix(site, "markWorking:"):
		return true
	case strings.HasPrefix(site, "pop:") && strings.Contains(site, "LoadInt64(q.head)"):
		return true
	case strings.HasPrefix(site, "markNotWorking:"):
		return true
	case strings.HasPrefix(site, "size:") && strings.Contains(site, "LoadInt64(q.tail)"):
		return true
	}
	return false
}

func c05Label(site string) string {
	switch {
	case site == "lock":
		return "put"
	case site == "writeEvent":
		return "write"
	case site == "cidle":
		return "cidle"
	case strings.HasPrefix(site, "markWorking:"):
		return "cas_flag"
	case strings.HasPrefix(site, "pop:"):
		return "pop"
	case strings.HasPrefix(site, "markNotWorking:") && strings.Contains(site, ", 0)"):
		return "store0"
	case strings.HasPrefix(site, "markNotWorking:") && strings.Contains(site, ", 1)"):
		return "store1"
	case strings.HasPrefix(site, "size:"):
		return "check"
	case site == "done" || site == "start":
		return site
	}
	return "?" + site
}

func c05Gen(r *rand.Rand, tier string, idx int) []string {
	if idx%150 == 49 {
		return []string{fmt.Sprintf("slowpath %d", []int{0, 1, 4095, 4096, 4096}[r.Intn(5)])}
	}
	cap := []int{1, 2, 3, 8}[r.Intn(4)]
	np := 1 + r.Intn(3)
	var ks []string
	total := 0
	for i := 0; i < np; i++ {
		k := 1 + r.Intn(4)
		total += k
		ks = append(ks, fmt.Sprintf("%d", k))
	}
	ops := []string{fmt.Sprintf("init %d %s", cap, strings.Join(ks, " "))}
	steps := r.Intn(total*9 + 6)
	fav := r.Intn(np + 1)
	for i := 0; i < steps; i++ {
		if r.Intn(4) == 0 {
			fav = r.Intn(np + 1)
		}
		w := fav
		if r.Intn(4) == 0 {
			w = r.Intn(np + 1)
		}
		if w == np {
			ops = append(ops, "step c")
		} else {
			ops = append(ops, fmt.Sprintf("step %d", w))
		}
	}
	return append(ops, "finish")
}

type c05Run struct {
	cap      int
	counts   []int
	a, b     *Session
	conn     *vStubConn
	sched    *vScheduler
	pth      []*vThread
	cth      *vThread
	inWake   []bool
	stop     bool
	consIdle bool
	taken    int // events taken by the consumer
	consumed int
	fulls    int
	fail     string
	key      string
	tags     map[string]bool
}

func (c *c05Run) setFail(key, what string) {
	if c.fail == "" {
		c.fail, c.key = what, key
	}
}

func (c *c05Run) eventsSent() int {
	c.conn.mu.Lock()
	n := len(c.conn.wr)
	c.conn.mu.Unlock()
	return n + len(c.a.sendCh)
}

func (c *c05Run) inflight() int { return c.eventsSent() - c.taken }

func (c *c05Run) snap() string {
	q := c.b.queueManager.recvQueue
	return fmt.Sprintf("qlen=%d flag=%d writing=%d inflight=%d consumed=%d events=%d fulls=%d",
		*q.tail-*q.head, *q.workingFlag, c.a.writing, c.inflight(), *q.head, c.eventsSent(), c.fulls)
}

func (c *c05Run) start() {
	qa, qb := vQueuePair(uint32(c.cap))
	c.conn = &vStubConn{}
	c.a = vBareSession(true, qa, nil, c.conn)
	c.b = vBareSession(true, qb, nil, &vStubConn{})
	c.sched = &vScheduler{filter: c05Filter}
	vS = c.sched
	c.inWake = make([]bool, len(c.counts))
	for p := range c.counts {
		p := p
		c.pth = append(c.pth, c.sched.newThread(func() {
			for i := 0; i < c.counts[p]; i++ {
				// what Stream.Flush / Stream.close do on the shared-memory path: put, then wake the peer
				err := c.a.sendQueue().put(queueElement{seqID: uint32(1000 + p*100 + i), status: uint32(streamClosed)})
				if err != nil {
					c.fulls++
					c.tags["queue-full"] = true
					continue
				}
				c.inWake[p] = true
				c.a.wakeUpPeer()
				c.inWake[p] = false
			}
		}))
	}
	c.consIdle = true
	c.cth = c.sched.newThread(func() {
		for {
			c.consIdle = true
			vYield("cidle")
			if c.inflight() == 0 {
				if c.stop {
					return
				}
				continue
			}
			c.taken++
			c.consIdle = false
			hdr := header(make([]byte, headerSize))
			hdr.encode(headerSize, c.b.communicationVersion, typePolling)
			if _, _, err := handlePolling(c.b, hdr, nil); err != nil {
				c.setFail("polling-error", "handlePolling returned "+err.Error())
			}
		}
	})
	for _, t := range c.sched.threads {
		c.sched.step(t)
	}
}

// the property itself, evaluated on the real objects after every step
func (c *c05Run) checkStranded(when string) {
	q := c.b.queueManager.recvQueue
	if *q.tail-*q.head <= 0 || !c.consIdle || c.inflight() > 0 {
		return
	}
	for p := range c.inWake {
		if c.inWake[p] {
			return
		}
	}
	c.setFail("stranded", fmt.Sprintf("%s: %d element(s) in the queue, consumer idle, no polling event in flight, no producer about to wake (flag=%d)", when, *q.tail-*q.head, *q.workingFlag))
}

func (c *c05Run) stepThread(th *vThread) string {
	if th.done {
		return "idle"
	}
	site := th.site
	lab := c05Label(site)
	wasInflight := c.inflight()
	c.sched.step(th)
	if th.panicV != nil {
		c.setFail("panic", fmt.Sprintf("panic: %v", th.panicV))
	}
	if lab == "cidle" && wasInflight > 0 {
		lab = "take"
	}
	if lab == "cas_flag" && len(c.a.sendCh) > 0 {
		c.tags["slow-path"] = true
	}
	c.checkStranded("after step")
	return lab
}

func (c *c05Run) finish() {
	for p, th := range c.pth {
		_ = p
		for k := 0; k < 100000 && !th.done; k++ {
			c.stepThread(th)
		}
	}
	for k := 0; k < 1000000; k++ {
		if c.consIdle && c.inflight() == 0 {
			break
		}
		c.stepThread(c.cth)
	}
}

// slowpath <pending>: the producer that won the wake-up flag finds the connection busy (a long write is in progress) and
// <pending> events already waiting for the send loop (4096 = the channel is full): its polling event must still reach the
// connection once the write is over - the caller may have to wait, the notification may not be dropped.
func c05SlowPath(f []string) vResult {
	res := vResult{noModel: true, out: []string{"done"}}
	pending := vAtoi(f[1])
	if pending < 0 || pending > 4096 {
		res.out = []string{"bad-op"}
		return res
	}
	qa, _ := vQueuePair(8)
	ca := &vStubConn{}
	s := vBareSession(true, qa, nil, ca)
	atomic.StoreUint32(&s.writing, 1) // somebody is in the middle of a write on the control connection
	for i := 0; i < pending; i++ {
		var ev [headerSize + 4]byte
		header(ev[:]).encode(headerSize+4, s.communicationVersion, typeStreamClose)
		binary.BigEndian.PutUint32(ev[headerSize:], 0x7ffffff0) // a stream id nobody owns
		s.sendCh <- sendReady{nil, ev[:], nil}
	}
	if err := s.queueManager.sendQueue.put(queueElement{seqID: 1, offsetInShmBuf: 0, status: 0}); err != nil {
		res.specFail, res.key = "put failed: "+err.Error(), "setup"
		return res
	}
	ret := make(chan error, 1)
	go func() { ret <- s.wakeUpPeer() }()
	time.Sleep(20 * time.Millisecond)
	// the long write ends (what writeEventData's caller does), the send loop works the backlog off
	go s.send()
	atomic.StoreUint32(&s.writing, 0)
	asyncNotify(s.notifyContinueWriteCh)
	select {
	case <-ret:
	case <-time.After(8 * time.Second):
		res.specFail, res.key = "wakeUpPeer did not return within 8 s although the send loop is running and the connection is free", "wake-blocks"
	}
	for t0 := time.Now(); time.Since(t0) < 5*time.Second && (len(s.sendCh) > 0 || atomic.LoadUint32(&s.writing) != 0); {
		time.Sleep(time.Millisecond)
	}
	time.Sleep(5 * time.Millisecond)
	close(s.shutdownCh)
	polls := 0
	ca.mu.Lock()
	for _, w := range ca.wr {
		for len(w) >= headerSize {
			h := header(w[:headerSize])
			l := int(h.Length())
			if l < headerSize || l > len(w) {
				break
			}
			if h.MsgType() == typePolling {
				polls++
			}
			w = w[l:]
		}
	}
	ca.mu.Unlock()
	q := s.queueManager.sendQueue
	// S (C05): a non-empty queue with an idle consumer always has a notification in flight
	if res.specFail == "" && q.size() > 0 && polls == 0 {
		res.specFail = fmt.Sprintf("the producer won the wake-up flag (workingFlag=%d) and wakeUpPeer returned nil with %d event(s) already waiting for the send loop; the connection is idle again, %d element(s) sit in the queue, and no polling event was ever written: nothing will wake the consumer",
			atomic.LoadUint32(q.workingFlag), pending, q.size())
		res.key = "stranded-element"
	}
	res.tags = []string{"wake-slow-path"}
	if pending == 4096 {
		res.tags = append(res.tags, "send-channel-full")
	}
	return res
}

func c05Exec(ops []string) vResult {
	if len(ops) == 1 && strings.HasPrefix(ops[0], "slowpath ") {
		if f := vFields(ops[0]); len(f) == 2 {
			return c05SlowPath(f)
		}
	}
	c := &c05Run{tags: map[string]bool{}}
	var out []string
	started := false
	defer func() { vS = nil }()
	for _, op := range ops {
		f := vFields(op)
		switch {
		case len(f) >= 3 && f[0] == "init" && !started:
			c.cap = vAtoi(f[1])
			c.counts = nil
			for _, k := range f[2:] {
				c.counts = append(c.counts, vAtoi(k))
			}
			c.start()
			started = true
			out = append(out, "ok")
		case len(f) == 2 && f[0] == "step" && started:
			var lab string
			if f[1] == "c" {
				if !c.consIdle {
					c.tags["consumer-active-step"] = true
				}
				lab = c.stepThread(c.cth)
				if lab == "store1" {
					c.tags["recheck-found-work"] = true
				}
			} else {
				p := vAtoi(f[1])
				if p < 0 || p >= len(c.pth) {
					lab = "idle"
				} else {
					lab = c.stepThread(c.pth[p])
				}
			}
			out = append(out, lab+" "+c.snap())
		case len(f) == 1 && f[0] == "finish" && started:
			c.finish()
			out = append(out, "done "+c.snap())
		default:
			out = append(out, "bad-op")
		}
	}
	if started {
		c.finish()
		// quiescence: producers finished, every notification delivered and handled, consumer returned
		q := c.b.queueManager.recvQueue
		if n := *q.tail - *q.head; n != 0 {
			c.setFail("stranded", fmt.Sprintf("quiescence: %d element(s) left in the receive queue with no notification in flight", n))
		}
		c.stop = true
		for k := 0; k < 10 && !c.cth.done; k++ {
			c.sched.step(c.cth)
		}
	}
	var tags []string
	for t := range c.tags {
		tags = append(tags, t)
	}
	return vResult{out: out, specFail: c.fail, key: c.key, tags: tags}
}
