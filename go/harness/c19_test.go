//go:build verif

package shmipc

// C19: the net.Listener / net.Conn adapter on real unix sockets: Listen, real client sessions dialling in, streams
// surfacing through Accept, Read / Write on the wrapped streams, Close of conns / listener / clients.
// Line protocol (shared with ShmVerif/Drv/C19.lean; every op waits for the adapter to settle before the snapshot):
//   dial | latedial <0|1> | open <k> | accept | echo <c> <n> | tail <c> <n> | cclose <c> | drop <k> | lclose

import (
	"bytes"
	"fmt"
	"io"
	"math/rand"
	"net"
	"os"
	"strings"
	"sync"
	"sync/atomic"
	"time"
)

func init() {
	vProps["C19"] = &vProp{model: "c19", quickN: 40, thoroughN: 400, gen: c19Gen, exec: c19Exec}
}

var c19Seq uint64

type c19Client struct {
	s       *Session
	streams []*Stream
}

type c19Conn struct {
	conn   net.Conn
	stream *Stream // the client end
	k, i   int
	closed bool
}

type c19Run struct {
	path    string
	prefix  string
	ln      *listener
	clients []*c19Client
	conns   []*c19Conn
	seen    map[string]bool
	lclosed bool
	fail    string
	key     string
	tags    map[string]bool
}

func (c *c19Run) setFail(key, what string) {
	if c.fail == "" {
		c.fail, c.key = what, key
	}
}

func (c *c19Run) listed() int {
	c.ln.mu.Lock()
	defer c.ln.mu.Unlock()
	return len(c.ln.sessions)
}

func c19WaitFor(d time.Duration, f func() bool) bool {
	deadline := time.Now().Add(d)
	for time.Now().Before(deadline) {
		if f() {
			return true
		}
		time.Sleep(500 * time.Microsecond)
	}
	return f()
}

func (c *c19Run) snap() string {
	var cl []string
	for _, k := range c.clients {
		if k.s == nil || k.s.IsClosed() {
			cl = append(cl, "1")
		} else {
			cl = append(cl, "0")
		}
	}
	lc := 0
	if atomic.LoadUint32(&c.ln.closed) == 1 {
		lc = 1
	}
	_ = strings.Join(cl, ",") // (whether a client has noticed that its session ended depends on the event loop's 1 s idle tick: not compared)
	return fmt.Sprintf("closed=%d listed=%d backlog=%d handed=%d", lc, c.listed(), len(c.ln.backlog), len(c.conns))
}

func (c *c19Run) op(f []string) string {
	settle := func() { time.Sleep(60 * time.Millisecond) }
	switch {
	case len(f) == 1 && f[0] == "dial":
		if len(c.clients) >= 3 {
			return "bad-op"
		}
		conn, err := net.Dial("unix", c.path)
		if err != nil {
			if c.lclosed {
				c.tags["dial-after-close-refused"] = true
				return "refused " + c.snap()
			}
			c.setFail("dial", err.Error())
			return "bad-op"
		}
		n0 := c.listed()
		s, err := newSession(c12Config(fmt.Sprintf("%s_c%d", c.prefix, len(c.clients)), MemMapTypeMemFd), conn, true)
		// the adapter's server side runs its handshake with the library's default 1 s InitializeTimeout (not
		// configurable through Listen): on a heavily loaded machine it can expire. That is load, not behaviour: try again.
		for attempt := 0; err != nil && attempt < 4 && !c.lclosed; attempt++ {
			conn.Close()
			c.tags["dial-retried"] = true
			time.Sleep(200 * time.Millisecond)
			if conn, err = net.Dial("unix", c.path); err != nil {
				break
			}
			s, err = newSession(c12Config(fmt.Sprintf("%s_c%d_r%d", c.prefix, len(c.clients), attempt), MemMapTypeMemFd), conn, true)
		}
		if err != nil {
			c.setFail("dial", "client session (5 attempts): "+err.Error())
			return "bad-op"
		}
		c.clients = append(c.clients, &c19Client{s: s})
		if !c.lclosed {
			c19WaitFor(5*time.Second, func() bool { return c.listed() > n0 })
		} else {
			settle()
		}
		return "ok " + c.snap()
	case len(f) == 2 && f[0] == "latedial" && (f[1] == "0" || f[1] == "1"):
		// a connection whose handshake is still in progress when (f[1] == "1") the listener is closed: the raw
		// connection is accepted, Server() waits for the client's first message, Close runs, the client then completes
		// the handshake. The session must not outlive the closed listener.
		if len(c.clients) >= 3 {
			return "bad-op"
		}
		conn, err := net.Dial("unix", c.path)
		if err != nil {
			if c.lclosed {
				c.tags["dial-after-close-refused"] = true
				return "refused " + c.snap()
			}
			c.setFail("dial", err.Error())
			return "bad-op"
		}
		n0 := c.listed()
		time.Sleep(100 * time.Millisecond) // the accept loop picks the connection up and starts the handshake
		if f[1] == "1" {
			c.ln.Close()
			c.lclosed = true
			c.tags["listener-closed-during-handshake"] = true
		}
		s, err := newSession(c12Config(fmt.Sprintf("%s_c%d", c.prefix, len(c.clients)), MemMapTypeMemFd), conn, true)
		for attempt := 0; err != nil && attempt < 4 && !c.lclosed; attempt++ {
			// (load: see "dial")
			conn.Close()
			c.tags["dial-retried"] = true
			time.Sleep(200 * time.Millisecond)
			if conn, err = net.Dial("unix", c.path); err != nil {
				break
			}
			s, err = newSession(c12Config(fmt.Sprintf("%s_c%d_r%d", c.prefix, len(c.clients), attempt), MemMapTypeMemFd), conn, true)
		}
		if err != nil {
			if !c.lclosed {
				c.setFail("dial", "client session (5 attempts): "+err.Error())
				return "bad-op"
			}
			// the closed listener dropped the connection before the handshake ended: same as a session that ended at once
			conn.Close()
			s = nil
		}
		c.clients = append(c.clients, &c19Client{s: s})
		if !c.lclosed {
			c19WaitFor(5*time.Second, func() bool { return c.listed() > n0 })
		} else {
			time.Sleep(150 * time.Millisecond)
		}
		return "ok " + c.snap()
	case len(f) == 2 && f[0] == "open":
		k := vAtoi(f[1])
		if k < 0 || k >= len(c.clients) {
			return "bad-op"
		}
		cl := c.clients[k]
		if cl.s == nil {
			return "done " + c.snap()
		}
		st, err := cl.s.OpenStream()
		if err != nil {
			return "done " + c.snap()
		}
		i := len(cl.streams)
		cl.streams = append(cl.streams, st)
		n0 := len(c.ln.backlog)
		st.SetDeadline(time.Now().Add(2 * time.Second))
		if _, err := st.Write([]byte(fmt.Sprintf("hello-%d-%d.", k, i))); err != nil {
			return "done " + c.snap()
		}
		if !c.lclosed {
			c19WaitFor(3*time.Second, func() bool { return len(c.ln.backlog) > n0 })
		} else {
			settle()
		}
		return "done " + c.snap()
	case len(f) == 1 && f[0] == "accept":
		type res struct {
			conn net.Conn
			err  error
		}
		if len(c.ln.backlog) == 0 && !c.lclosed {
			return "empty " + c.snap() // Accept would block: not issued
		}
		ch := make(chan res, 1)
		go func() { cn, err := c.ln.Accept(); ch <- res{cn, err} }()
		select {
		case r := <-ch:
			if r.err != nil {
				if !c.lclosed {
					c.setFail("accept-error", "Accept failed on an open listener: "+r.err.Error())
				}
				c.tags["accept-after-close-errors"] = true
				return "closed " + c.snap()
			}
			r.conn.SetDeadline(time.Now().Add(2 * time.Second))
			buf := make([]byte, 64)
			var got []byte
			for !bytes.HasSuffix(got, []byte(".")) {
				n, err := r.conn.Read(buf)
				// S (C19): Read returns between 1 and len(p) bytes, or an error
				if err == nil && (n < 1 || n > len(buf)) {
					c.setFail("read-contract", fmt.Sprintf("Read(64-byte buffer) returned n=%d, err=nil", n))
				}
				if err != nil {
					dropped := false
					for _, cl := range c.clients {
						if cl.s.IsClosed() {
							dropped = true
						}
					}
					if !dropped {
						c.setFail("accepted-conn-unreadable", "the first message of an accepted conn cannot be read although every client session is alive: "+err.Error())
					}
					c.tags["accepted-conn-of-dead-session"] = true
					got = nil
					break
				}
				got = append(got, buf[:n]...)
			}
			id := string(got)
			if got == nil {
				c.conns = append(c.conns, &c19Conn{conn: r.conn, k: -1})
				return "ok " + c.snap()
			}
			// S (C19): every stream a client opens surfaces exactly once
			if c.seen[id] {
				c.setFail("stream-surfaced-twice", "Accept returned a second conn for stream "+id)
			}
			c.seen[id] = true
			var k, i int
			fmt.Sscanf(id, "hello-%d-%d.", &k, &i)
			cc := &c19Conn{conn: r.conn, k: k, i: i}
			if k >= 0 && k < len(c.clients) && i >= 0 && i < len(c.clients[k].streams) {
				cc.stream = c.clients[k].streams[i]
			} else {
				c.setFail("unknown-stream", "Accept returned a conn whose first message is "+id)
			}
			c.conns = append(c.conns, cc)
			return "ok " + c.snap()
		case <-time.After(2 * time.Second):
			c.setFail("accept-hangs", fmt.Sprintf("Accept blocked for 2 s (listener closed: %v, backlog %d)", c.lclosed, len(c.ln.backlog)))
			return "hang " + c.snap()
		}
	case len(f) == 3 && f[0] == "echo":
		ci, n := vAtoi(f[1]), vAtoi(f[2])
		if ci < 0 || ci >= len(c.conns) || n < 1 || n > 1<<16 || c.conns[ci].closed || c.conns[ci].stream == nil {
			return "noop " + c.snap()
		}
		cc := c.conns[ci]
		if cc.k < 0 || c.clients[cc.k].s.IsClosed() {
			return "noop " + c.snap()
		}
		data := make([]byte, n)
		for i := range data {
			data[i] = byte(i*7 + n)
		}
		cc.conn.SetDeadline(time.Now().Add(2 * time.Second))
		cc.stream.SetDeadline(time.Now().Add(2 * time.Second))
		// server -> client
		wn, err := cc.conn.Write(data)
		// S (C19): Write delivers all of p or fails
		if err == nil && wn != n {
			c.setFail("write-contract", fmt.Sprintf("Write(%d bytes) returned n=%d, err=nil", n, wn))
		}
		if err == nil {
			got := make([]byte, 0, n)
			buf := make([]byte, 1000)
			for len(got) < n {
				rn, rerr := cc.stream.Read(buf)
				if rerr != nil {
					c.setFail("echo-lost", fmt.Sprintf("client read after %d of %d bytes: %v", len(got), n, rerr))
					break
				}
				if rn < 1 || rn > len(buf) {
					c.setFail("read-contract", fmt.Sprintf("Read returned n=%d, err=nil", rn))
					break
				}
				got = append(got, buf[:rn]...)
			}
			if len(got) >= n && !bytes.Equal(got[:n], data) {
				c.setFail("echo-corrupt", "bytes written through the conn differ from the bytes read from the stream")
			}
			cc.stream.ReleaseReadAndReuse()
		}
		// client -> server
		if _, err := cc.stream.Write(data); err == nil {
			got := make([]byte, 0, n)
			buf := make([]byte, 777)
			for len(got) < n {
				rn, rerr := cc.conn.Read(buf)
				if rerr != nil {
					c.setFail("echo-lost", fmt.Sprintf("server read after %d of %d bytes: %v", len(got), n, rerr))
					break
				}
				if rn < 1 || rn > len(buf) {
					c.setFail("read-contract", fmt.Sprintf("Read returned n=%d, err=nil", rn))
					break
				}
				got = append(got, buf[:rn]...)
			}
			if len(got) >= n && !bytes.Equal(got[:n], data) {
				c.setFail("echo-corrupt", "bytes written to the stream differ from the bytes read through the conn")
			}
		}
		c.tags["echo"] = true
		return "ok " + c.snap()
	case len(f) == 3 && f[0] == "tail":
		// the client writes its last n bytes and closes its stream while the server is not reading; the server reads afterwards:
		// every byte, in order, and only then the end of the stream
		ci, n := vAtoi(f[1]), vAtoi(f[2])
		if ci < 0 || ci >= len(c.conns) || n < 1 || n > 1<<16 || c.conns[ci].closed || c.conns[ci].stream == nil {
			return "noop " + c.snap()
		}
		cc := c.conns[ci]
		if cc.k < 0 || c.clients[cc.k].s.IsClosed() {
			return "noop " + c.snap()
		}
		data := make([]byte, n)
		for i := range data {
			data[i] = byte(i*11 + n)
		}
		cc.stream.SetDeadline(time.Now().Add(2 * time.Second))
		wn, werr := cc.stream.Write(data)
		cerr := cc.stream.Close()
		cc.stream = nil
		if werr == nil && wn == n && cerr == nil {
			sw, _ := cc.conn.(*streamWrapper)
			if sw != nil && !c19WaitFor(5*time.Second, func() bool { return !sw.stream.IsOpen() }) {
				c.setFail("peer-close-not-seen", "5 s after the client closed its stream the server's end is still open")
			}
			cc.conn.SetDeadline(time.Now().Add(2 * time.Second))
			got := make([]byte, 0, n)
			buf := make([]byte, 333)
			var rerr error
			for rerr == nil && len(got) <= n {
				var rn int
				rn, rerr = cc.conn.Read(buf)
				if rerr == nil && (rn < 1 || rn > len(buf)) {
					c.setFail("read-contract", fmt.Sprintf("Read returned n=%d, err=nil", rn))
					break
				}
				got = append(got, buf[:rn]...)
			}
			// S (C19): Write returned len(p), nil and Close returned nil: the reader gets all of it before the end of the stream
			if !bytes.Equal(got, data) {
				c.setFail("tail-lost", fmt.Sprintf("the client wrote %d bytes (Write = %d, nil) and closed (nil); the server, reading afterwards, got %d of them and then: %v", n, wn, len(got), rerr))
			} else if rerr != io.EOF && rerr != ErrEndOfStream {
				c.setFail("tail-no-eof", fmt.Sprintf("after the last byte of a stream its peer closed, Read returned %v instead of the end of the stream", rerr))
			}
			c.tags["tail-then-close"] = true
		}
		return "ok " + c.snap()
	case len(f) == 2 && f[0] == "cclose":
		ci := vAtoi(f[1])
		if ci < 0 || ci >= len(c.conns) {
			return "noop " + c.snap()
		}
		c.conns[ci].conn.Close()
		c.conns[ci].conn.Close() // Close is idempotent
		c.conns[ci].closed = true
		settle()
		return "ok " + c.snap()
	case len(f) == 2 && f[0] == "drop":
		k := vAtoi(f[1])
		if k < 0 || k >= len(c.clients) {
			return "noop " + c.snap()
		}
		if c.clients[k].s == nil {
			settle()
			return "ok " + c.snap()
		}
		was := c.clients[k].s.IsClosed()
		n0 := c.listed()
		c.clients[k].s.Close()
		if !was && !c.lclosed {
			// the server notices through the connection; an idle event loop runs posted work once per second
			c19WaitFor(8*time.Second, func() bool { return c.listed() < n0 })
		} else {
			settle()
		}
		c.tags["client-drops"] = true
		return "ok " + c.snap()
	case len(f) == 1 && f[0] == "lclose":
		c.ln.Close()
		c.lclosed = true
		settle()
		c.tags["listener-closed"] = true
		return "ok " + c.snap()
	}
	return "bad-op"
}

// burst <n>: one client opens n streams at once and writes a tag on each while nobody accepts; then the application accepts:
// every stream surfaces exactly once, with its tag - also when more streams are pending than the backlog and the session's
// accept queue (1024) hold together
func c19Burst(f []string) vResult {
	res := vResult{noModel: true, out: []string{"done"}, tags: []string{"burst-of-streams"}}
	n := vAtoi(f[1])
	if n < 1 || n > 1500 {
		res.out = []string{"bad-op"}
		return res
	}
	internalLogger = &logger{"", io.Discard, 3}
	k := atomic.AddUint64(&c19Seq, 1)
	prefix := fmt.Sprintf("/dev/shm/verif_c19b_%d_%d", os.Getpid(), k)
	path := fmt.Sprintf("/tmp/verif_c19b_%d_%d.sock", os.Getpid(), k)
	os.Remove(path)
	raw, err := net.Listen("unix", path)
	if err != nil {
		res.specFail, res.key = "listen: "+err.Error(), "setup"
		return res
	}
	ln := newListener(raw, 8)
	defer os.Remove(path)
	var cs *Session
	// the listener's end has the library's fixed one-second handshake budget: on a loaded machine an attempt can miss it,
	// which says nothing about this scenario - keep trying for a while
	for attempt, t0 := 0, time.Now(); attempt < 5 || time.Since(t0) < 45*time.Second; attempt++ {
		conn, derr := net.Dial("unix", path)
		if derr != nil {
			err = derr
			break
		}
		// room for one slice per stream: a session that has to fall back to the connection declares itself overloaded
		// (circuit breaker: OpenStream is refused for 30 s), which is not what this scenario is about
		ccfg := c12Config(fmt.Sprintf("%s_r%d", prefix, attempt), MemMapTypeMemFd)
		ccfg.ShareMemoryBufferCap = 32 << 20
		ccfg.QueueCap = 4096 // ... and room in the io queue for one element per stream while the dispatcher waits for Accept
		if cs, err = newSession(ccfg, conn, true); err == nil {
			break
		}
		conn.Close()
		time.Sleep(200 * time.Millisecond)
	}
	if err != nil || cs == nil {
		ln.Close()
		res.specFail, res.key = fmt.Sprintf("client session: %v", err), "setup"
		return res
	}
	done := make(chan string, 1)
	var wrote int64 // streams whose Write returned (4, nil): exactly these must surface
	go func() {
		for i := 0; i < n; i++ {
			st, err := cs.OpenStream()
			if err != nil {
				done <- fmt.Sprintf("OpenStream %d: %v", i, err)
				return
			}
			st.SetDeadline(time.Now().Add(20 * time.Second))
			tag := []byte{byte(i), byte(i >> 8), 0xC1, 0x9B}
			wn, err := st.Write(tag)
			if err != nil {
				// back-pressure is allowed to fail a Write (it then delivered nothing); stop here
				n = i
				break
			}
			if wn != 4 {
				done <- fmt.Sprintf("Write on stream %d = (%d, nil)", i, wn)
				return
			}
			atomic.AddInt64(&wrote, 1)
		}
		done <- ""
	}()
	// the application is slow: it starts accepting only after a while (the client may still be opening streams)
	time.Sleep(300 * time.Millisecond)
	seen := map[int]int{}
	got := 0
	deadline := time.Now().Add(25 * time.Second)
	for (got < n || atomic.LoadInt64(&wrote) > int64(got)) && time.Now().Before(deadline) {
		type ac struct {
			c   net.Conn
			err error
		}
		ch := make(chan ac, 1)
		go func() { c, err := ln.Accept(); ch <- ac{c, err} }()
		var a ac
		select {
		case a = <-ch:
		case <-time.After(3 * time.Second):
			// nothing more surfaces
			deadline = time.Now()
			continue
		}
		if a.err != nil {
			res.specFail, res.key = "Accept: "+a.err.Error(), "accept-error"
			break
		}
		a.c.SetDeadline(time.Now().Add(10 * time.Second))
		b := make([]byte, 4)
		if _, err := io.ReadFull(a.c, b); err != nil || b[2] != 0xC1 || b[3] != 0x9B {
			res.specFail, res.key = fmt.Sprintf("conn %d: reading the tag: %x %v", got, b, err), "echo-lost"
			break
		}
		seen[int(b[0])|int(b[1])<<8]++
		got++
		a.c.Close()
	}
	werr := ""
	select {
	case werr = <-done:
	case <-time.After(10 * time.Second):
		werr = "the client is still blocked opening / writing streams"
	}
	if res.specFail == "" && werr != "" {
		res.specFail, res.key = "client side: "+werr, "write-contract"
	}
	// S (C19): every stream a client opens surfaces exactly once as a net.Conn
	if res.specFail == "" {
		dup := 0
		for _, v := range seen {
			if v > 1 {
				dup++
			}
		}
		if w := int(atomic.LoadInt64(&wrote)); len(seen) != w || dup > 0 {
			n = w
			res.specFail = fmt.Sprintf("the client opened %d streams and wrote a tag on each (every Write returned 4, nil); Accept returned %d conns with %d distinct tags (%d tags more than once); %d streams never surfaced", n, got, len(seen), dup, n-len(seen))
			res.key = "stream-never-surfaces"
		}
	}
	ln.Close()
	c12CloseSession(cs)
	return res
}

// dclose <rounds>: two goroutines Close the SAME accepted conn at the same time (a reader that closes on error while the
// owner closes on shutdown) while a second conn of the same session stays open: the conn gives its session reference back
// once - the other conn keeps working and closes without a panic
func c19DoubleClose(f []string) vResult {
	res := vResult{noModel: true, out: []string{"done"}, tags: []string{"one-conn-closed-by-two-goroutines"}}
	rounds := vAtoi(f[1])
	if rounds < 1 || rounds > 2000 {
		res.out = []string{"bad-op"}
		return res
	}
	internalLogger = &logger{"", io.Discard, 3}
	k := atomic.AddUint64(&c19Seq, 1)
	prefix := fmt.Sprintf("/dev/shm/verif_c19d_%d_%d", os.Getpid(), k)
	path := fmt.Sprintf("/tmp/verif_c19d_%d_%d.sock", os.Getpid(), k)
	os.Remove(path)
	raw, err := net.Listen("unix", path)
	if err != nil {
		res.specFail, res.key = "listen: "+err.Error(), "setup"
		return res
	}
	ln := newListener(raw, 64)
	defer os.Remove(path)
	var cs *Session
	for attempt, t0 := 0, time.Now(); attempt < 5 || time.Since(t0) < 45*time.Second; attempt++ {
		conn, derr := net.Dial("unix", path)
		if derr != nil {
			err = derr
			break
		}
		if cs, err = newSession(c12Config(fmt.Sprintf("%s_r%d", prefix, attempt), MemMapTypeMemFd), conn, true); err == nil {
			break
		}
		conn.Close()
		time.Sleep(200 * time.Millisecond)
	}
	if err != nil || cs == nil {
		ln.Close()
		res.specFail, res.key = fmt.Sprintf("client session: %v", err), "setup"
		return res
	}
	defer func() {
		ln.Close()
		c12CloseSession(cs)
	}()
	open1 := func(tag byte) (*Stream, net.Conn, error) {
		st, err := cs.OpenStream()
		if err != nil {
			return nil, nil, err
		}
		st.SetDeadline(time.Now().Add(10 * time.Second))
		if _, err := st.Write([]byte{tag}); err != nil {
			return nil, nil, err
		}
		type ac struct {
			c   net.Conn
			err error
		}
		ch := make(chan ac, 1)
		go func() { c, err := ln.Accept(); ch <- ac{c, err} }()
		select {
		case a := <-ch:
			if a.err != nil {
				return nil, nil, a.err
			}
			a.c.SetDeadline(time.Now().Add(10 * time.Second))
			b := make([]byte, 1)
			if _, err := io.ReadFull(a.c, b); err != nil || b[0] != tag {
				return nil, nil, fmt.Errorf("reading the tag: %x %v", b, err)
			}
			return st, a.c, nil
		case <-time.After(10 * time.Second):
			return nil, nil, fmt.Errorf("the stream did not surface within 10 s")
		}
	}
	for r := 0; r < rounds && res.specFail == ""; r++ {
		_, connA, err := open1(0xA1)
		if err != nil {
			res.specFail, res.key = "round set-up: "+err.Error(), "setup"
			break
		}
		stB, connB, err := open1(0xB2)
		if err != nil {
			res.specFail, res.key = "round set-up: "+err.Error(), "setup"
			break
		}
		var ready int32
		var wg sync.WaitGroup
		var pan atomic.Value
		for g := 0; g < 2; g++ {
			wg.Add(1)
			go func() {
				defer wg.Done()
				defer func() {
					if e := recover(); e != nil {
						pan.Store(fmt.Sprint(e))
					}
				}()
				atomic.AddInt32(&ready, 1)
				for i := 0; atomic.LoadInt32(&ready) < 2 && i < 50000000; i++ {
				}
				connA.Close()
			}()
		}
		wg.Wait()
		// the other conn of the session still works ...
		werr := func() (e error) {
			defer func() {
				if x := recover(); x != nil {
					pan.Store(fmt.Sprint(x))
				}
			}()
			stB.SetDeadline(time.Now().Add(10 * time.Second))
			if _, err := stB.Write([]byte{0x5A}); err != nil {
				return err
			}
			b := make([]byte, 1)
			connB.SetDeadline(time.Now().Add(10 * time.Second))
			if _, err := io.ReadFull(connB, b); err != nil {
				return err
			}
			// ... and closes like any conn
			return connB.Close()
		}()
		stB.Close()
		if p := pan.Load(); p != nil {
			// S (C19): Close works as on a socket - also when it is called twice at once
			res.specFail, res.key = fmt.Sprintf("round %d: one accepted conn was closed by two goroutines at the same time; then using / closing ANOTHER conn of the same session panicked: %v", r, p), "double-close-gives-reference-twice"
		} else if werr != nil {
			res.specFail, res.key = fmt.Sprintf("round %d: one accepted conn was closed by two goroutines at the same time; another conn of the same session then failed: %v", r, werr), "double-close-gives-reference-twice"
		}
	}
	return res
}

func c19Exec(ops []string) vResult {
	if len(ops) == 1 && strings.HasPrefix(ops[0], "dclose ") {
		if f := vFields(ops[0]); len(f) == 2 {
			return c19DoubleClose(f)
		}
	}
	if len(ops) == 1 && strings.HasPrefix(ops[0], "burst ") {
		if f := vFields(ops[0]); len(f) == 2 {
			return c19Burst(f)
		}
	}
	internalLogger = &logger{"", io.Discard, 3}
	n := atomic.AddUint64(&c19Seq, 1)
	c := &c19Run{tags: map[string]bool{}, seen: map[string]bool{}}
	c.prefix = fmt.Sprintf("/dev/shm/verif_c19_%d_%d", os.Getpid(), n)
	c.path = fmt.Sprintf("/tmp/verif_c19_%d_%d.sock", os.Getpid(), n)
	os.Remove(c.path)
	raw, err := net.Listen("unix", c.path)
	if err != nil {
		return vResult{out: make([]string, len(ops)), specFail: "listen: " + err.Error(), key: "setup"}
	}
	c.ln = newListener(raw, 8)
	var out []string
	for _, op := range ops {
		out = append(out, c.op(vFields(op)))
	}
	// S (C19): closing the listener lets the sessions end once their conns are closed
	if !c.lclosed {
		c.ln.Close()
		c.lclosed = true
	}
	for _, cc := range c.conns {
		cc.conn.Close()
	}
	for k, cl := range c.clients {
		if cl.s == nil {
			continue
		}
		if !c19WaitFor(10*time.Second, func() bool { return cl.s.IsClosed() }) {
			c.setFail("session-not-ended-after-listener-close", fmt.Sprintf("the listener is closed and every conn Accept returned is closed, yet session %d is still open 10 s later (streams opened on it: %d, of which %d were handed out by Accept)", k, len(cl.streams), func() int {
				n := 0
				for _, cc := range c.conns {
					if cc.k == k {
						n++
					}
				}
				return n
			}()))
		}
	}
	for _, cl := range c.clients {
		if cl.s != nil {
			c12CloseSession(cl.s)
		}
	}
	os.Remove(c.path)
	var tags []string
	for t := range c.tags {
		tags = append(tags, t)
	}
	return vResult{out: out, specFail: c.fail, key: c.key, tags: tags}
}

func c19Gen(r *rand.Rand, tier string, idx int) []string {
	if idx%40 == 31 {
		return []string{fmt.Sprintf("dclose %d", 100+r.Intn(200))}
	}
	if idx%40 == 17 {
		return []string{fmt.Sprintf("burst %d", []int{5, 40, 1040, 1200}[r.Intn(4)])}
	}
	ops := []string{"dial"}
	nc, nconn := 1, 0
	opened := 0
	n := 4 + r.Intn(12)
	closed := false
	for i := 0; i < n; i++ {
		switch x := r.Intn(20); {
		case x < 2 && nc < 3:
			if r.Intn(3) == 0 {
				late := r.Intn(2)
				ops = append(ops, fmt.Sprintf("latedial %d", late))
				if late == 1 {
					closed = true
				}
			} else {
				ops = append(ops, "dial")
			}
			nc++
		case x < 8 && opened-nconn < 6:
			ops = append(ops, fmt.Sprintf("open %d", r.Intn(nc)))
			opened++
		case x < 12:
			ops = append(ops, "accept")
			if opened > nconn && !closed {
				nconn++
			}
		case x < 15 && nconn > 0:
			if r.Intn(4) == 0 {
				ops = append(ops, fmt.Sprintf("tail %d %d", r.Intn(nconn), []int{1, 31, 1000, 5000, 16384}[r.Intn(5)]))
			} else {
				ops = append(ops, fmt.Sprintf("echo %d %d", r.Intn(nconn), []int{1, 10, 1000, 5000, 40000}[r.Intn(5)]))
			}
		case x < 17 && nconn > 0:
			ops = append(ops, fmt.Sprintf("cclose %d", r.Intn(nconn)))
		case x < 18:
			ops = append(ops, fmt.Sprintf("drop %d", r.Intn(nc)))
		case x < 19 && !closed:
			ops = append(ops, "lclose")
			closed = true
		default:
			ops = append(ops, "accept")
			if opened > nconn && !closed {
				nconn++
			}
		}
	}
	return ops
}
