//go:build verif

package shmipc

// C13: whatever arrives on the control connection. The real Session.onEventData / handleEvents / handlers run on a bare
// in-package session (stub connection, stub dispatcher, recording listen callback); the same bytes and chunking go
// through the Lean model.
// Line protocol (shared with ShmVerif/Drv/C13.lean):
//   cfg <isServer> <hasManager> <hasListener> <listenerEpoch>
//   feed <hex>            one kernel read delivering these bytes (appended to the unconsumed window)
//   meta <hex>            Session.extractShmMetadata on this body (handshake)

import (
	"encoding/binary"
	"encoding/hex"
	"fmt"
	"math/rand"
	"os"
	"sort"
	"strings"
	"sync"
)

func init() {
	vProps["C13"] = &vProp{model: "c13", quickN: 1500, thoroughN: 30000, gen: c13Gen, exec: c13Exec}
}

type vStubDispatcher struct {
	mu    sync.Mutex
	posts []func()
}

func (d *vStubDispatcher) runLoop() error                          { return nil }
func (d *vStubDispatcher) newConnection(f *os.File) eventConn       { return &vStubConn{} }
func (d *vStubDispatcher) shutdown() error                         { return nil }
func (d *vStubDispatcher) post(f func())                           { d.mu.Lock(); d.posts = append(d.posts, f); d.mu.Unlock() }

type vListenCB struct {
	streams   []*Stream
	shutdowns int
}

func (l *vListenCB) OnNewStream(s *Stream)    { l.streams = append(l.streams, s) }
func (l *vListenCB) OnShutdown(reason string) { l.shutdowns++ }

type c13Conn struct {
	vStubConn
	committed int
}

func (c *c13Conn) commitRead(n int) { c.committed = n }

func c13EncodeEvent(r *rand.Rand, version uint8) []byte {
	switch r.Intn(6) {
	case 0:
		h := make([]byte, headerSize)
		header(h).encode(headerSize, version, typePolling)
		return h
	case 1:
		b := make([]byte, headerSize+4)
		header(b).encode(headerSize+4, version, typeStreamClose)
		binary.BigEndian.PutUint32(b[headerSize:], uint32(1+r.Intn(6)))
		return b
	case 2, 3:
		var ev fallbackDataEvent
		n := []int{0, 1, 3, 8, 20}[r.Intn(5)]
		status := uint32([]int{0, 0, 0, 1, 2, 7, 0x100, 0xabcd01}[r.Intn(8)])
		ev.encode(len(ev)+n, version, uint32(1+r.Intn(6)), status)
		b := append([]byte{}, ev[:]...)
		for i := 0; i < n; i++ {
			b = append(b, byte(r.Intn(256)))
		}
		return b
	case 4:
		b := make([]byte, headerSize+8)
		header(b).encode(uint32(len(b)), version, typeHotRestart)
		binary.BigEndian.PutUint64(b[headerSize:], uint64(r.Intn(4)))
		return b
	default:
		b := make([]byte, headerSize+8)
		header(b).encode(uint32(len(b)), version, typeHotRestartAck)
		binary.BigEndian.PutUint64(b[headerSize:], uint64(r.Intn(4)))
		return b
	}
}

func c13Gen(r *rand.Rand, tier string, idx int) []string {
	hasMgr, hasLst := r.Intn(3) > 0, r.Intn(3) > 0
	b2i := func(b bool) int {
		if b {
			return 1
		}
		return 0
	}
	ops := []string{fmt.Sprintf("cfg %d %d %d %d", r.Intn(2), b2i(hasMgr), b2i(hasLst), r.Intn(4))}
	// mostly-valid stream of events …
	var bs []byte
	n := 1 + r.Intn(8)
	mutIdx := -1
	if r.Intn(2) == 0 {
		mutIdx = r.Intn(n)
	}
	for i := 0; i < n; i++ {
		ev := c13EncodeEvent(r, uint8(2+r.Intn(2)))
		for (ev[7] == byte(typeHotRestart) && !hasMgr || ev[7] == byte(typeHotRestartAck) && !hasLst) && r.Intn(8) != 0 {
			ev = c13EncodeEvent(r, uint8(2+r.Intn(2)))
		}
		// … one of them possibly mutated
		sel := 99
		if i == mutIdx {
			sel = r.Intn(5)
		}
		switch sel {
		case 0: // truncate
			ev = ev[:r.Intn(len(ev))]
		case 1: // perturb the length field
			binary.BigEndian.PutUint32(ev[0:4], uint32([]int{0, 1, 7, 8, 9, 12, 15, 16, 17, 100, 1 << 20, 0xffffffff}[r.Intn(12)]))
		case 2: // type
			if len(ev) >= 8 {
				ev[7] = byte([]int{0, 4, 5, 6, 7, 10, 11, 255}[r.Intn(8)])
			}
		case 3: // version / magic
			if len(ev) >= 8 {
				if r.Intn(2) == 0 {
					ev[6] = 0
				} else {
					ev[4+r.Intn(2)] ^= byte(1 + r.Intn(255))
				}
			}
		case 4: // random byte flip
			if len(ev) > 0 {
				ev[r.Intn(len(ev))] ^= byte(1 << uint(r.Intn(8)))
			}
		}
		bs = append(bs, ev...)
	}
	honest := mutIdx == -1
	if r.Intn(10) == 0 { // pure garbage tail
		honest = false
		k := r.Intn(24)
		for i := 0; i < k; i++ {
			bs = append(bs, byte(r.Intn(256)))
		}
	}
	// cut into reads
	mode := r.Intn(4)
	for len(bs) > 0 {
		var k int
		switch mode {
		case 0:
			k = len(bs)
		case 1:
			k = 1
		case 2:
			k = 1 + r.Intn(5)
		default:
			k = 1 + r.Intn(len(bs))
		}
		if k > len(bs) {
			k = len(bs)
		}
		ops = append(ops, "feed "+hex.EncodeToString(bs[:k]))
		bs = bs[k:]
	}
	if honest {
		// only complete events from the real encoders were sent: nothing may be left waiting for more bytes
		ops = append(ops, "honest")
	}
	// handshake metadata bodies
	if r.Intn(3) == 0 {
		q := make([]byte, r.Intn(6))
		b := make([]byte, r.Intn(6))
		body := []byte{0, byte(len(q))}
		body = append(body, q...)
		body = append(body, 0, byte(len(b)))
		body = append(body, b...)
		switch r.Intn(5) {
		case 0:
			body = body[:r.Intn(len(body)+1)]
		case 1:
			body[r.Intn(2)] = byte(r.Intn(256))
		case 2:
			if len(body) > 2+len(q)+1 {
				body[2+len(q)+r.Intn(2)] = byte(r.Intn(256))
			}
		}
		ops = append(ops, "meta "+hex.EncodeToString(body))
	}
	return ops
}

type c13Run struct {
	s      *Session
	cb     *vListenCB
	disp   *vStubDispatcher
	conn   *c13Conn
	win    []byte
	rb     []byte // the connection handler's read buffer (c.win is a window into it)
	roff   int
	lst    *Listener
	fail   string
	key    string
	tags   map[string]bool
	hasCfg bool
}

func (c *c13Run) setFail(key, what string) {
	if c.fail == "" {
		c.fail, c.key = what, key
	}
}

func (c *c13Run) setup(isServer, hasMgr, hasLst bool, epoch uint64) {
	qa, _ := vQueuePair(8)
	c.conn = &c13Conn{}
	c.s = vBareSession(!isServer, qa, nil, c.conn)
	c.disp = &vStubDispatcher{}
	c.s.dispatcher = c.disp
	c.cb = &vListenCB{}
	c.s.config.listenCallback = c.cb
	if hasMgr {
		c.s.manager = &SessionManager{}
	}
	if hasLst {
		c.lst = &Listener{epoch: epoch, hotRestartAckCount: 1000, state: hotRestartState}
		c.s.state = hotRestartState
		c.s.listener = c.lst
	}
	c.win = nil
	c.hasCfg = true
}

func (c *c13Run) summary() string {
	closed := 0
	if c.s.IsClosed() {
		closed = 1
	}
	win := len(c.win)
	if closed == 1 {
		win = 0
	}
	var ids []int
	c.s.streamLock.Lock()
	byID := map[int]*Stream{}
	for id, st := range c.s.streams {
		ids = append(ids, int(id))
		byID[int(id)] = st
	}
	c.s.streamLock.Unlock()
	// after a protocol error the session's Close has already notified streams, the table is only swapped by the posted lambda
	sort.Ints(ids)
	var ss []string
	for _, id := range ids {
		st := byID[id]
		var pays []string
		st.pendingData.Lock()
		for _, w := range st.pendingData.unread {
			if w.fallbackSlice != nil {
				pays = append(pays, hex.EncodeToString(w.fallbackSlice.data[w.fallbackSlice.readIndex:w.fallbackSlice.writeIndex]))
			} else {
				pays = append(pays, "shm")
			}
		}
		st.pendingData.Unlock()
		ss = append(ss, fmt.Sprintf("%d:%d:%s", id, st.getStreamState(), strings.Join(pays, "|")))
	}
	acks := 0
	if c.lst != nil {
		acks = 1000 - c.lst.hotRestartAckCount
	}
	c.disp.mu.Lock()
	posts := len(c.disp.posts)
	c.disp.mu.Unlock()
	if closed == 1 {
		posts-- // Session.Close posted its teardown lambda
	}
	return fmt.Sprintf("closed=%d win=%d polls=%d posts=%d acks=%d streams=%s", closed, win, c.s.stats.recvPollingEventCount, posts, acks, strings.Join(ss, ","))
}

func c13Exec(ops []string) (res vResult) {
	c := &c13Run{tags: map[string]bool{}}
	var out []string
	for _, op := range ops {
		f := vFields(op)
		switch {
		case len(f) == 5 && f[0] == "cfg":
			c.setup(f[1] == "1", f[2] == "1", f[3] == "1", uint64(vAtoi(f[4])))
			out = append(out, "ok")
		case f[0] == "feed" && len(f) <= 2:
			if !c.hasCfg {
				c.setup(true, false, false, 0)
			}
			var chunk []byte
			if len(f) == 2 {
				chunk, _ = hex.DecodeString(f[1])
			}
			wasClosed := c.s.IsClosed()
			if !wasClosed {
				// the connection handler's read buffer: unconsumed bytes stay where they are, new bytes are appended behind them,
				// and once everything is consumed the buffer is used again from its beginning (so a handler that kept a window
				// into it sees later traffic there)
				if len(c.win) == 0 {
					c.roff = 0
				}
				if c.rb == nil {
					c.rb = make([]byte, 1<<20)
				}
				if c.roff+len(c.win)+len(chunk) > len(c.rb) {
					nb := make([]byte, 2*(c.roff+len(c.win)+len(chunk)))
					copy(nb[c.roff:], c.win)
					c.rb = nb
				}
				copy(c.rb[c.roff+len(c.win):], chunk)
				c.win = c.rb[c.roff : c.roff+len(c.win)+len(chunk)]
				c.conn.committed = 0
				func() {
					defer func() {
						if e := recover(); e != nil {
							c.setFail("panic", fmt.Sprintf("panic while handling bytes from the control connection: %v", e))
							c.tags["panic"] = true
						}
					}()
					// exactly what the event loop does for one read
					c.s.onEventData(c.win, c.conn)
				}()
				if c.conn.committed < 0 || c.conn.committed > len(c.win) {
					c.setFail("consumed-out-of-range", fmt.Sprintf("handleEvents consumed %d of %d bytes", c.conn.committed, len(c.win)))
					c.win = nil
				} else {
					c.roff += c.conn.committed
					c.win = c.win[c.conn.committed:]
				}
				if c.s.IsClosed() {
					c.tags["protocol-error"] = true
				}
				if len(c.win) > 0 && !c.s.IsClosed() {
					c.tags["partial-event-kept"] = true
				}
			}
			out = append(out, c.summary())
		case f[0] == "honest" && len(f) == 1:
			// S (C13 / C11): well-formed events take effect. After a sequence of COMPLETE events of the real encoders a live
			// session has consumed everything: an event left lying takes effect only when unrelated bytes happen to arrive (a
			// stream close: its reader waits for ever)
			if c.s != nil && !c.s.IsClosed() && len(c.win) > 0 {
				c.setFail("complete-event-not-consumed", fmt.Sprintf("only complete, well-formed events were sent, yet %d byte(s) stay unhandled in the read buffer of a live session (next header: % x)", len(c.win), c.win[:vMin(len(c.win), headerSize)]))
			}
			c.tags["only-complete-events"] = true
			out = append(out, "ok")
		case f[0] == "meta" && len(f) <= 2:
			var body []byte
			if len(f) == 2 {
				body, _ = hex.DecodeString(f[1])
			}
			s := vBareSession(false, nil, nil, &vStubConn{})
			r := func() (r string) {
				defer func() {
					if e := recover(); e != nil {
						c.setFail("panic", fmt.Sprintf("panic in extractShmMetadata: %v", e))
						r = "panic"
					}
				}()
				b, q, err := s.extractShmMetadata(body)
				if err != nil {
					c.tags["meta-err"] = true
					return "err"
				}
				c.tags["meta-ok"] = true
				return fmt.Sprintf("ok b=%s q=%s", hex.EncodeToString([]byte(b)), hex.EncodeToString([]byte(q)))
			}()
			out = append(out, r)
		default:
			out = append(out, "bad-op")
		}
	}
	// S: the effect of the byte stream does not depend on how it was cut into reads
	if c.hasCfg && c.fail == "" {
		var all []byte
		nfeeds := 0
		var cfgOp []string
		for _, op := range ops {
			f := vFields(op)
			if f[0] == "cfg" && len(f) == 5 {
				cfgOp = f
				all = nil
				nfeeds = 0
			}
			if f[0] == "feed" && len(f) == 2 {
				b, _ := hex.DecodeString(f[1])
				all = append(all, b...)
				nfeeds++
			}
		}
		if nfeeds > 1 {
			c2 := &c13Run{tags: map[string]bool{}}
			if cfgOp != nil {
				c2.setup(cfgOp[1] == "1", cfgOp[2] == "1", cfgOp[3] == "1", uint64(vAtoi(cfgOp[4])))
			} else {
				c2.setup(true, false, false, 0)
			}
			c2.win = append([]byte{}, all...)
			func() {
				defer func() {
					if e := recover(); e != nil {
						c.setFail("panic", fmt.Sprintf("panic (unchunked delivery): %v", e))
					}
				}()
				c2.s.onEventData(append([]byte{}, all...), c2.conn)
			}()
			if c2.conn.committed >= 0 && c2.conn.committed <= len(c2.win) {
				c2.win = c2.win[c2.conn.committed:]
			}
			a, b := c.summary(), c2.summary()
			if a != b {
				c.setFail("chunk-dependent", fmt.Sprintf("chunked delivery: %s ; same bytes in one read: %s", a, b))
			}
			c.tags["chunked"] = true
		}
	}
	// posted lambdas (hot restart handlers) are not run here: C16 covers them
	var tags []string
	for t := range c.tags {
		tags = append(tags, t)
	}
	if c.hasCfg && len(c.s.streams) > 0 {
		tags = append(tags, "streams")
	}
	return vResult{out: out, specFail: c.fail, key: c.key, tags: tags}
}

func vMin(a, b int) int {
	if a < b {
		return a
	}
	return b
}
