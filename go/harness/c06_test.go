//go:build verif

package shmipc

// C06 / C08 / C09: the stream data path on two real in-package sessions sharing one buffer memory and one queue memory,
// single goroutine, event delivery stepped by hand.
// Line protocol (shared with ShmVerif/Drv/C06.lean):
//   init cap:n cap:n ...     size classes (capPerBuffer : number of slots), ascending
//   wb|rsv <x> <hex>          WriteBytes / Reserve+fill on stream x (a|b)      wbyte <x> <byte>
//   flush <x>                 Stream.Flush, then everything written to x's control connection is delivered to the peer
//   rb|pk|dc|rs|rd <x> <n>    ReadBytes / Peek / Discard / ReadString / Read(p[:n])        rbyte <x>
//   rel <x> / reuse <x>       ReleasePreviousRead / Stream.ReleaseReadAndReuse            len <x>
//   take <c> <k> / give <c> <k>   another holder pops / recycles k buffers of class c

import (
	"encoding/binary"
	"bytes"
	"encoding/hex"
	"fmt"
	"math/rand"
	"strings"
	"time"
	"unsafe"
)

func init() {
	vProps["C06"] = &vProp{model: "c06", quickN: 700, thoroughN: 12000, gen: func(r *rand.Rand, t string, i int) []string { return c06Gen(r, t, i, "c06") }, exec: func(ops []string) vResult { return c06Exec(ops, "C06") }}
	vProps["C08"] = &vProp{model: "c06", quickN: 700, thoroughN: 12000, gen: func(r *rand.Rand, t string, i int) []string { return c06Gen(r, t, i, "c08") }, exec: func(ops []string) vResult { return c06Exec(ops, "C08") }}
}

type c06End struct {
	s      *Session
	conn   *vStubConn
	st     *Stream
	bm     *bufferManager
	pipeIn []byte // bytes flushed by the peer towards this end and not yet consumed here
	moved  int    // bytes of pipeIn that have been moved into the receive buffer (Len must equal moved - consumed...)
	wbuf   []byte // bytes composed since the last flush
	taken  int    // polling/fallback events of conn already delivered
	borrows []c06Borrow
}

type c06Borrow struct {
	view []byte // the slice handed out by ReadBytes / Peek (zero copy when fast path)
	copy []byte // its content at hand-out time
}

type c06Run struct {
	mem   []byte
	ends  map[string]*c06End
	held  [][]*bufferSlice
	caps  []int
	fail  string
	key   string
	tags  map[string]bool
	prop  string
	dead  bool
}

func (c *c06Run) setFail(key, what string) {
	if c.fail == "" {
		c.fail, c.key = what, key
	}
}

func c06Classes(ws []string) (caps, nums []int) {
	for _, w := range ws {
		var a, b int
		fmt.Sscanf(strings.ReplaceAll(w, ":", " "), "%d %d", &a, &b)
		caps = append(caps, a)
		nums = append(nums, b)
	}
	return
}

// build a buffer manager with exactly the requested classes by laying out the memory by hand through the real
// createFreeBufferList (createBufferManager's percent arithmetic is C03's business)
func c06BuildMem(caps, nums []int) ([]byte, *bufferManager, *bufferManager, error) {
	total := bufferManagerHeaderSize
	for i := range caps {
		total += bufferListHeaderSize + nums[i]*(caps[i]+bufferHeaderSize)
	}
	mem := make([]byte, total)
	*(*uint16)(unsafe.Pointer(&mem[0])) = uint16(len(caps))
	off := uint32(bufferManagerHeaderSize)
	bm := &bufferManager{mem: mem, path: "verif", refCount: 1}
	for i := range caps {
		l, err := createFreeBufferList(uint32(nums[i]), uint32(caps[i]), mem, off)
		if err != nil {
			return nil, nil, nil, err
		}
		bm.lists = append(bm.lists, l)
		off += countBufferListMemSize(uint32(nums[i]), uint32(caps[i]))
	}
	*(*uint32)(unsafe.Pointer(&mem[bmCapOffset])) = off - bufferManagerHeaderSize
	bm.minSliceSize = uint32(caps[0])
	bm.maxSliceSize = uint32(caps[len(caps)-1])
	bm2, err := mappingBufferManager("verif-peer", mem, 0)
	if err != nil {
		return nil, nil, nil, err
	}
	return mem, bm, bm2, nil
}

func (c *c06Run) init(ws []string) error {
	caps, nums := c06Classes(ws)
	if len(caps) == 0 {
		return fmt.Errorf("no classes")
	}
	for i := range caps {
		if caps[i] <= 0 || nums[i] <= 0 || caps[i] > 1<<16 || nums[i] > 64 || (i > 0 && caps[i] <= caps[i-1]) {
			return fmt.Errorf("bad class")
		}
	}
	mem, bmA, bmB, err := c06BuildMem(caps, nums)
	if err != nil {
		return err
	}
	c.mem, c.caps = mem, caps
	c.held = make([][]*bufferSlice, len(caps))
	qa, qb := vQueuePair(64)
	ca, cb := &vStubConn{}, &vStubConn{}
	sa := vBareSession(true, qa, bmA, ca)
	sb := vBareSession(false, qb, bmB, cb)
	for _, s := range []*Session{sa, sb} {
		s.dispatcher = &vStubDispatcher{}
		go s.send()
	}
	debugMode = true
	mk := func(s *Session) *Stream {
		st := newStream(s, 1)
		s.streamLock.Lock()
		s.streams[1] = st
		s.streamLock.Unlock()
		st.SetReadDeadline(time.Now().Add(-time.Hour))
		return st
	}
	c.ends = map[string]*c06End{
		"a": {s: sa, conn: ca, st: mk(sa), bm: bmA},
		"b": {s: sb, conn: cb, st: mk(sb), bm: bmB},
	}
	return nil
}

func (c *c06Run) close() {
	for _, e := range c.ends {
		select {
		case <-e.s.shutdownCh:
		default:
			close(e.s.shutdownCh) // stops the send loop
		}
	}
}

func (c *c06Run) free() string {
	var fs []string
	for _, l := range c.ends["a"].bm.lists {
		fs = append(fs, fmt.Sprintf("%d", *l.size-1+1))
	}
	return strings.Join(fs, ",")
}

func (c *c06Run) suffix(x string) string {
	return fmt.Sprintf(" len=%d free=%s", c.ends[x].st.recvBuf.Len(), c.free())
}

func peerName(x string) string {
	if x == "a" {
		return "b"
	}
	return "a"
}

// vDeliverEvent hands bytes read from the control connection to the session the way the connection handler does: in ITS
// read buffer, which is used again for the next traffic as soon as the handler returns (here: overwritten at once)
var vDeliverBuf []byte

func vDeliverEvent(s *Session, m []byte) error {
	if cap(vDeliverBuf) < len(m) {
		vDeliverBuf = make([]byte, 2*len(m)+64)
	}
	b := vDeliverBuf[:len(m)]
	copy(b, m)
	err := s.onEventData(b, &c13Conn{})
	for i := range b {
		b[i] = 0xDD
	}
	return err
}

// deliver everything x wrote on its control connection to the peer's event handler, in order
func (c *c06Run) deliver(x string) {
	e, p := c.ends[x], c.ends[peerName(x)]
	// wait for the send loop to drain sendCh (fallback events go through it)
	for i := 0; i < 2000 && len(e.s.sendCh) > 0; i++ {
		time.Sleep(50 * time.Microsecond)
	}
	e.conn.mu.Lock()
	msgs := e.conn.wr[e.taken:]
	e.taken = len(e.conn.wr)
	e.conn.mu.Unlock()
	for _, m := range msgs {
		vDeliverEvent(p.s, m)
	}
}

// S (C08): every zero-copy result handed out and not yet released still reads as it did
func (c *c06Run) checkBorrows(when string) {
	for _, e := range c.ends {
		for _, b := range e.borrows {
			if !bytes.Equal(b.view, b.copy) {
				c.setFail("borrow-changed", fmt.Sprintf("%s: a slice returned by ReadBytes/Peek changed before it was released (was %x, now %x)", when, trunc(b.copy), trunc(b.view)))
				return
			}
		}
	}
}

func trunc(b []byte) []byte {
	if len(b) > 24 {
		return b[:24]
	}
	return b
}

func (c *c06Run) readerResult(x, op string, n int, data []byte, cnt int, err error, consumed bool) string {
	e := c.ends[x]
	if err != nil {
		if err == ErrTimeout {
			c.tags["read-timeout"] = true
			return "timeout"
		}
		return "err:" + vErrClass(err)
	}
	// S (C06): bytes are exactly the next bytes the peer flushed
	if op == "dc" {
		if cnt > len(e.pipeIn) {
			c.setFail("pipe-mismatch", fmt.Sprintf("%s %s %d discarded %d bytes but only %d were flushed and unconsumed", op, x, n, cnt, len(e.pipeIn)))
		} else if cnt != n {
			c.setFail("pipe-mismatch", fmt.Sprintf("Discard(%d) returned %d without error", n, cnt))
		} else {
			e.pipeIn = e.pipeIn[cnt:]
		}
		return fmt.Sprintf("ok %d", cnt)
	}
	want := len(data)
	if want > len(e.pipeIn) || !bytes.Equal(data, e.pipeIn[:want]) {
		exp := e.pipeIn
		if len(exp) > want {
			exp = exp[:want]
		}
		c.setFail("pipe-mismatch", fmt.Sprintf("%s %s %d returned %x, the flushed byte stream continues with %x", op, x, n, trunc(data), trunc(exp)))
	} else if consumed {
		e.pipeIn = e.pipeIn[want:]
	}
	if (op == "rb" || op == "pk" || op == "rs") && len(data) != n {
		c.setFail("pipe-mismatch", fmt.Sprintf("%s(%d) returned %d bytes without error", op, n, len(data)))
	}
	if op == "rd" && (len(data) < 1 || len(data) > n) {
		c.setFail("read-contract", fmt.Sprintf("Read(p[:%d]) returned %d bytes without error", n, len(data)))
	}
	return "ok " + hex.EncodeToString(data)
}

// S (C09, slot level): when neither stream lists, parks or awaits a slice, every slot the environment does not hold is back
// in its free list
func (c *c06Run) checkAllBack(when string) {
	for _, e := range c.ends {
		st := e.st
		st.pendingData.Lock()
		np := len(st.pendingData.unread)
		st.pendingData.Unlock()
		if st.sendBuf.sliceList.size() != 0 || st.recvBuf.sliceList.size() != 0 || st.recvBuf.pinnedList.size() != 0 ||
			st.sendBuf.pinnedList.size() != 0 || np != 0 {
			return
		}
	}
	c.tags["quiescent-checked"] = true
	bm := c.ends["a"].bm
	for i, l := range bm.lists {
		want := int(*l.cap) - len(c.held[i])
		if got := int(*l.size); got != want {
			c.setFail("slot-leak", fmt.Sprintf("%s: no stream buffer lists, parks or awaits a slice and the environment holds %d of class %d, yet its free list offers %d of %d slots",
				when, len(c.held[i]), i, got, int(*l.cap)))
		}
	}
}

func (c *c06Run) afterReader(x string) {
	e := c.ends[x]
	// Len never exceeds what was flushed and not consumed
	if l := e.st.recvBuf.Len(); l > len(e.pipeIn) || l < 0 {
		c.setFail("len-mismatch", fmt.Sprintf("Len()=%d but only %d bytes were flushed and not yet consumed", l, len(e.pipeIn)))
	}
}

func c06Exec(ops []string, prop string) (res vResult) {
	c := &c06Run{tags: map[string]bool{}, prop: prop}
	var out []string
	defer func() {
		if c.ends != nil {
			c.close()
		}
	}()
	for _, op := range ops {
		f := vFields(op)
		if c.dead {
			out = append(out, "dead")
			continue
		}
		if f[0] == "init" {
			if c.ends != nil {
				out = append(out, "bad-op")
				continue
			}
			if err := c.init(f[1:]); err != nil {
				out = append(out, "bad-op")
				c.ends = nil
				continue
			}
			out = append(out, "ok")
			continue
		}
		if c.ends == nil {
			out = append(out, "bad-op")
			continue
		}
		line := func() (line string) {
			defer func() {
				if r := recover(); r != nil {
					c.dead = true
					c.tags["panic"] = true
					c.setFail("panic", fmt.Sprintf("panic in %q: %v", op, r))
					line = "panic"
				}
			}()
			x := ""
			if len(f) > 1 {
				x = f[1]
			}
			e := c.ends[x]
			switch {
			case (f[0] == "wb" || f[0] == "rsv") && len(f) == 3 && e != nil:
				d, _ := hex.DecodeString(f[2])
				if f[0] == "wb" {
					n, err := e.st.BufferWriter().WriteBytes(d)
					if err != nil || n != len(d) {
						c.setFail("write-short", fmt.Sprintf("WriteBytes(%d bytes) = (%d, %v)", len(d), n, err))
					}
				} else {
					buf, err := e.st.BufferWriter().Reserve(len(d))
					if err != nil || len(buf) != len(d) {
						c.setFail("reserve-failed", fmt.Sprintf("Reserve(%d) = (len %d, %v)", len(d), len(buf), err))
					} else {
						copy(buf, d)
					}
				}
				e.wbuf = append(e.wbuf, d...)
				if !e.st.sendBuf.isFromShareMemory() {
					c.tags["heap-fallback-slice"] = true
				}
				if e.st.sendBuf.sliceList.size() > 1 {
					c.tags["multi-slice-write"] = true
				}
				return fmt.Sprintf("ok wlen=%d", e.st.sendBuf.Len()) + c.suffix(x)
			case f[0] == "wbyte" && len(f) == 3 && e != nil:
				b := byte(vAtoi(f[2]))
				e.st.BufferWriter().WriteByte(b)
				e.wbuf = append(e.wbuf, b)
				return fmt.Sprintf("ok wlen=%d", e.st.sendBuf.Len()) + c.suffix(x)
			case f[0] == "flush" && len(f) == 2 && e != nil:
				p := c.ends[peerName(x)]
				wlen := e.st.sendBuf.Len()
				fbBefore := e.s.stats.fallbackWriteCount
				err := e.st.Flush(false)
				if err != nil {
					c.setFail("flush-error", "Flush returned "+err.Error())
				}
				r := "shm"
				if wlen == 0 {
					r = "noop"
				} else if e.s.stats.fallbackWriteCount != fbBefore {
					r = "fallback"
					c.tags["fallback-transport"] = true
				}
				if err == nil {
					p.pipeIn = append(p.pipeIn, e.wbuf...)
				}
				e.wbuf = nil
				c.deliver(x)
				c.checkBorrows("after flush")
				return r + c.suffix(x)
			case (f[0] == "rb" || f[0] == "pk" || f[0] == "rs" || f[0] == "rd" || f[0] == "dc") && len(f) == 3 && e != nil:
				n := vAtoi(f[2])
				var line string
				switch f[0] {
				case "rb":
					d, err := e.st.BufferReader().ReadBytes(n)
					line = c.readerResult(x, "rb", n, d, 0, err, true)
					if err == nil && len(d) > 0 {
						e.borrows = append(e.borrows, c06Borrow{view: d, copy: append([]byte{}, d...)})
						if e.st.recvBuf.pinnedList.size() > 0 {
							c.tags["pinned-list-used"] = true
						}
					}
				case "pk":
					d, err := e.st.BufferReader().Peek(n)
					line = c.readerResult(x, "pk", n, d, 0, err, false)
					if err == nil && len(d) > 0 {
						e.borrows = append(e.borrows, c06Borrow{view: d, copy: append([]byte{}, d...)})
					}
				case "rs":
					s, err := e.st.BufferReader().ReadString(n)
					line = c.readerResult(x, "rs", n, []byte(s), 0, err, true)
				case "rd":
					p := make([]byte, n)
					k, err := e.st.Read(p)
					if n == 0 {
						return "ok " + c.suffix(x)
					}
					line = c.readerResult(x, "rd", n, p[:k], 0, err, true)
				case "dc":
					k, err := e.st.BufferReader().Discard(n)
					line = c.readerResult(x, "dc", n, nil, k, err, true)
				}
				c.afterReader(x)
				c.checkBorrows("after " + f[0])
				return line + c.suffix(x)
			case f[0] == "rbyte" && len(f) == 2 && e != nil:
				b, err := e.st.BufferReader().ReadByte()
				line := c.readerResult(x, "rbyte", 1, []byte{b}, 0, err, true)
				c.afterReader(x)
				return line + c.suffix(x)
			case f[0] == "rel" && len(f) == 2 && e != nil:
				e.borrows = nil
				e.st.BufferReader().ReleasePreviousRead()
				return "ok" + c.suffix(x)
			case f[0] == "reuse" && len(f) == 2 && e != nil:
				e.borrows = nil
				e.st.ReleaseReadAndReuse()
				return "ok" + c.suffix(x)
			case f[0] == "cls" && len(f) == 2 && e != nil:
				// the buffer side of Stream.clean (Close): what is in flight towards the stream, its receive buffer and its
				// send buffer are all given back; the stream object stays registered so that the case can go on
				e.borrows = nil
				e.st.pendingData.clear()
				e.st.recvBuf.recycle()
				e.st.sendBuf.recycle()
				e.pipeIn, e.moved, e.wbuf = nil, 0, nil
				c.tags["stream-cleaned"] = true
				c.checkAllBack("after cls " + x)
				return "ok" + c.suffix(x)
			case f[0] == "fbe" && len(f) == 2 && e != nil:
				// a well-formed fall-back data event with an EMPTY payload arrives for x's stream: an empty slice joins the
				// receive buffer behind whatever is there
				ev := make([]byte, headerSize+8)
				header(ev).encode(uint32(len(ev)), e.s.communicationVersion, typeFallbackData)
				binary.BigEndian.PutUint32(ev[headerSize:], e.st.id)
				binary.BigEndian.PutUint32(ev[headerSize+4:], uint32(streamOpened))
				vDeliverEvent(e.s, ev)
				c.tags["empty-fallback-event"] = true
				return "ok" + c.suffix(x)
			case f[0] == "len" && len(f) == 2 && e != nil:
				return "ok" + c.suffix(x)
			case (f[0] == "take" || f[0] == "give") && len(f) == 3:
				ci, k := vAtoi(f[1]), vAtoi(f[2])
				if ci < 0 || ci >= len(c.caps) {
					return "bad-op"
				}
				bm := c.ends["a"].bm
				n := 0
				if f[0] == "take" {
					for i := 0; i < k; i++ {
						b, err := bm.lists[ci].pop()
						if err != nil {
							break
						}
						// scribble: an unrelated holder writing into its own buffer
						for j := range b.data {
							b.data[j] = 0xEE
						}
						c.held[ci] = append(c.held[ci], b)
						n++
					}
					c.tags["env-take"] = true
				} else {
					for i := 0; i < k && len(c.held[ci]) > 0; i++ {
						bm.recycleBuffer(c.held[ci][0])
						c.held[ci] = c.held[ci][1:]
						n++
					}
				}
				c.checkBorrows("after " + f[0])
				return fmt.Sprintf("ok %d free=%s", n, c.free())
			}
			return "bad-op"
		}()
		out = append(out, line)
	}
	var tags []string
	for t := range c.tags {
		tags = append(tags, t)
	}
	return vResult{out: out, specFail: c.fail, key: c.key, tags: tags}
}

func c06RandBytes(r *rand.Rand, n int, seq *byte) string {
	b := make([]byte, n)
	for i := range b {
		*seq++
		if *seq == 0 {
			*seq = 1
		}
		b[i] = *seq
	}
	return hex.EncodeToString(b)
}

func c06Gen(r *rand.Rand, tier string, idx int, flavour string) []string {
	// slice-size configurations: small capacities so that every boundary is crossed often
	cfgs := [][]string{
		{"16:4"}, {"8:6", "32:3"}, {"16:3", "64:3", "256:2"}, {"4:8"}, {"32:5", "128:2"}, {"8:3", "16:3", "24:3"},
	}
	cls := cfgs[r.Intn(len(cfgs))]
	caps, _ := c06Classes(cls)
	ops := []string{"init " + strings.Join(cls, " ")}
	var seq byte
	sizeRel := func() int {
		c := caps[r.Intn(len(caps))]
		sum := 0
		for _, x := range caps {
			sum += x
		}
		switch r.Intn(12) {
		case 0:
			return 0
		case 1:
			return 1
		case 2:
			return c - 1
		case 3:
			return c
		case 4:
			return c + 1
		case 5:
			return 2 * c
		case 6:
			return sum + r.Intn(3) - 1
		case 7:
			return caps[len(caps)-1] + 1 + r.Intn(8)
		case 8:
			return 2*c + 1
		default:
			return 1 + r.Intn(c+2)
		}
	}
	pure := r.Intn(3) == 0 // only operations of the stream-pair system of the slot-accounting theorems (no Reserve / reuse / environment)
	pending := map[string]int{"a": 0, "b": 0}  // bytes flushed towards x and not consumed
	composed := map[string]int{"a": 0, "b": 0} // bytes composed by x and not flushed
	n := 4 + r.Intn(40)
	dir := "a"
	for i := 0; i < n; i++ {
		if r.Intn(10) == 0 {
			dir = peerName(dir)
		}
		w, rd := dir, peerName(dir)
		switch k := r.Intn(20); {
		case k < 5:
			sz := sizeRel()
			kind := []string{"wb", "wb", "rsv"}[r.Intn(3)]
			if pure {
				kind = "wb"
			}
			if sz == 0 && kind == "rsv" {
				sz = 1
			}
			ops = append(ops, fmt.Sprintf("%s %s %s", kind, w, c06RandBytes(r, sz, &seq)))
			composed[w] += sz
		case k < 6:
			seq++
			ops = append(ops, fmt.Sprintf("wbyte %s %d", w, seq))
			composed[w]++
		case k < 9:
			ops = append(ops, "flush "+w)
			pending[rd] += composed[w]
			composed[w] = 0
		case k < 15:
			// reader ops, sizes mostly within what is available
			avail := pending[rd]
			sz := sizeRel()
			if avail > 0 && r.Intn(5) != 0 {
				sz = 1 + r.Intn(avail)
				if r.Intn(3) == 0 {
					sz = avail
				}
			}
			if r.Intn(12) == 0 {
				ops = append(ops, "fbe "+rd)
			}
			opn := []string{"rb", "rb", "pk", "dc", "rs", "rd", "rbyte"}[r.Intn(7)]
			if flavour == "c08" {
				opn = []string{"rb", "rb", "pk", "pk", "dc", "rb", "rbyte"}[r.Intn(7)]
			}
			if opn == "rbyte" {
				ops = append(ops, "rbyte "+rd)
				if avail >= 1 {
					pending[rd]--
				}
			} else {
				ops = append(ops, fmt.Sprintf("%s %s %d", opn, rd, sz))
				if opn != "pk" && sz <= avail {
					pending[rd] -= sz
				} else if opn == "rd" && avail > 0 {
					// Read may return fewer bytes: the generator only tracks an upper bound, exact tracking is in the harness
					pending[rd] = 0
				}
			}
		case k < 16:
			ops = append(ops, "rel "+rd)
		case k < 17:
			if z := r.Intn(4); z == 0 && !pure {
				ops = append(ops, "reuse "+rd)
			} else if z == 1 {
				cx := []string{w, rd}[r.Intn(2)]
				ops = append(ops, "cls "+cx)
				pending[cx], composed[cx] = 0, 0
			} else {
				ops = append(ops, "len "+rd)
			}
		case k < 19 && !pure:
			ops = append(ops, fmt.Sprintf("take %d %d", r.Intn(len(caps)), 1+r.Intn(4)))
		case !pure:
			ops = append(ops, fmt.Sprintf("give %d %d", r.Intn(len(caps)), 1+r.Intn(4)))
		default:
			ops = append(ops, "rel "+rd)
		}
	}
	if r.Intn(2) == 0 {
		ops = append(ops, "cls a", "cls b")
	}
	return ops
}
