//go:build verif

package shmipc

// C20: callback mode (fillDataToReadBuffer + the goroutine it spawns, halfClose, Close/close) under the controlled scheduler.
// One bare session with one stream that has callbacks installed. Logical threads: the event loop `e` (data arrivals, the
// peer's close), the callback goroutines `g<i>` (captured from gopool.Go), the user `u` (one Close() from outside a callback).
// A step runs a thread from the atomic access it is parked at to the next one (state, callbackInProcess,
// callbackCloseState accesses; the WaitGroup wait). Line protocol (shared with ShmVerif/Drv/C20.lean):
//   init
//   e | e data <n> | e dataf <n> | e pclose      one step of the event loop; when idle it starts the given command
//   g <i> <k> <c>                                one step of goroutine i; if an OnData call starts in it, that call consumes
//                                                min(k, Len) bytes and calls Close iff c = 1
//   u                                            one step of the user's Close
//   setcb                                        a second SetCallbacks call (refused; must change nothing)
//   finish                                       deterministic completion

import (
	"bytes"
	"fmt"
	"io"
	"math/rand"
	"net"
	"os"
	"strings"
	"sync"
	"sync/atomic"
	"time"

	syscall "golang.org/x/sys/unix"
)

var c20Seq uint64

func init() {
	vProps["C20"] = &vProp{model: "c20", quickN: 1500, thoroughN: 30000, gen: c20Gen, exec: c20Exec}
}

func c20Filter(site string) bool {
	switch {
	case site == "eidle", site == "wgwait":
		return true
	case strings.HasPrefix(site, "getStreamState:"), strings.HasPrefix(site, "fillDataToReadBuffer:"),
		strings.HasPrefix(site, "Close:"), strings.HasPrefix(site, "close:"), strings.HasPrefix(site, "halfClose:"):
		return true
	}
	return false
}

type c20Run struct {
	sess   *Session
	conn   *vStubConn
	bm     *bufferManager
	st     *Stream
	sched  *vScheduler
	eth    *vThread
	uth    *vThread
	gth    []*vThread
	gClose []bool // goroutine i is inside s.close()
	gClean []bool // ... and past the wait for the other goroutines
	uClean bool

	ecmd    string
	ewrap   bufferSliceWrapper
	eIdle   bool
	eStop   bool
	sizeOff map[uint32]int
	sizeFb  map[*bufferSlice]int

	odK     int
	odClose bool

	stream   []byte // every byte handed to fillDataToReadBuffer, in order
	next     byte
	inOn     int
	maxOn    int
	calls    int
	consumed int
	offered  int
	onLocal  int
	onRemote int
	peerCloseIssued bool
	owedAtPeerClose int // bytes the peer had flushed when it closed
	closeReturned   bool // some Close() call has returned nil
	closeReturnedBeforeStep bool // ... before the scheduler step that is running now began
	free0    int

	fail string
	key  string
	tags map[string]bool
}

func (c *c20Run) setFail(key, what string) {
	if c.fail == "" {
		c.fail, c.key = what, key
	}
}

type c20CB struct{ c *c20Run }

func (cb *c20CB) OnData(r BufferReader) {
	c := cb.c
	c.inOn++
	if c.inOn > c.maxOn {
		c.maxOn = c.inOn
	}
	// S (C20): OnData is never running twice at the same time for one stream
	if c.inOn > 1 {
		c.setFail("ondata-concurrent", fmt.Sprintf("OnData entered while %d other invocation(s) had not returned", c.inOn-1))
	}
	c.calls++
	// S (C20): data stops being offered once the stream is closed. The loop's IsOpen test and this call happen in one
	// scheduler step, so a Close that had returned nil before this step began was visible to that test.
	if c.closeReturnedBeforeStep {
		c.setFail("ondata-after-close", fmt.Sprintf("OnData call %d started although Stream.Close() had already returned nil before the goroutine tested IsOpen()", c.calls))
	}
	l := r.Len()
	data, err := r.Peek(l)
	if err != nil {
		c.setFail("ondata-peek", fmt.Sprintf("Peek(Len()=%d) inside OnData failed: %v", l, err))
	} else {
		// S (C20): what is offered is exactly the next not-yet-consumed bytes of the arrival stream (in order, never twice)
		if c.consumed+l > len(c.stream) || !bytes.Equal(data, c.stream[c.consumed:c.consumed+l]) {
			c.setFail("ondata-bytes", fmt.Sprintf("OnData call %d was offered %x, expected the arrival stream from position %d", c.calls, trunc(data), c.consumed))
		}
	}
	if c.consumed+l > c.offered {
		c.offered = c.consumed + l
	}
	k := c.odK
	if k > l {
		k = l
	}
	if k > 0 {
		if n, err := r.Discard(k); err != nil || n != k {
			c.setFail("ondata-discard", fmt.Sprintf("Discard(%d) inside OnData = %d, %v", k, n, err))
		}
		r.ReleasePreviousRead()
		c.consumed += k
	}
	if c.odClose {
		c.tags["close-in-ondata"] = true
		if err := c.st.Close(); err == nil {
			c.closeReturned = true
		}
	}
	c.inOn--
}
func (cb *c20CB) OnLocalClose()  { cb.c.onLocal++ }
func (cb *c20CB) OnRemoteClose() { cb.c.onRemote++ }

func (c *c20Run) start() error {
	_, bmA, _, err := c06BuildMem([]int{64}, []int{48})
	if err != nil {
		return err
	}
	qa, _ := vQueuePair(8)
	c.conn = &vStubConn{}
	c.bm = bmA
	c.sess = vBareSession(true, qa, bmA, c.conn)
	c.sess.dispatcher = &vStubDispatcher{}
	go c.sess.send()
	c.st = newStream(c.sess, 3)
	c.sess.streams[3] = c.st
	if err := c.st.SetCallbacks(&c20CB{c: c}); err != nil {
		return err
	}
	c.free0 = int(*c.bm.lists[0].size)
	c.sizeOff = map[uint32]int{}
	c.sizeFb = map[*bufferSlice]int{}
	c.sched = &vScheduler{filter: c20Filter, checkGoid: true}
	vS = c.sched
	c.eIdle = true
	c.eth = c.sched.newThread(func() {
		for {
			c.eIdle = true
			vYield("eidle")
			if c.eStop {
				return
			}
			c.eIdle = false
			switch c.ecmd {
			case "data":
				// Session.handleStreamMessage with an "opened" status
				c.sess.handleStreamMessage(c.st, c.ewrap, streamOpened)
			case "pclose":
				c.sess.handleStreamMessage(c.st, bufferSliceWrapper{}, streamClosed)
			}
			c.ecmd = ""
		}
	})
	c.sched.step(c.eth) // parks at eidle
	c.uth = c.sched.newThread(func() {
		if err := c.st.Close(); err == nil {
			c.closeReturned = true
		}
	})
	return nil
}

func (c *c20Run) adopt() {
	for _, f := range c.sched.spawned {
		c.gth = append(c.gth, c.sched.newThread(f))
		c.gClose = append(c.gClose, false)
		c.gClean = append(c.gClean, false)
	}
	c.sched.spawned = nil
}

func (c *c20Run) makeData(n int, fb bool) bufferSliceWrapper {
	data := make([]byte, n)
	for i := range data {
		data[i] = c.next
		c.next++
		if c.next == 251 {
			c.next = 0
		}
	}
	c.stream = append(c.stream, data...)
	if !fb {
		if sl, err := c.bm.allocShmBuffer(uint32(n)); err == nil {
			sl.append(data...)
			sl.update()
			c.sizeOff[sl.offsetInShm] = n
			return bufferSliceWrapper{offset: sl.offsetInShm}
		}
		c.tags["alloc-failed"] = true
	}
	c.tags["fallback-data"] = true
	sl := newBufferSlice(nil, append([]byte{}, data...), 0, false)
	sl.writeIndex = n
	c.sizeFb[sl] = n
	return bufferSliceWrapper{fallbackSlice: sl}
}

func c20Site(site string, inClose bool, cleaning ...bool) string {
	if len(cleaning) > 0 && cleaning[0] && strings.HasPrefix(site, "getStreamState:") {
		return "cleaning"
	}
	switch {
	case site == "start", site == "done":
		return site
	case site == "wgwait":
		return "waitG"
	case strings.HasPrefix(site, "getStreamState:"):
		if inClose {
			return "closeLoad"
		}
		return "load"
	case strings.HasPrefix(site, "Close:atomic.StoreUint32"):
		return "in3"
	case strings.HasPrefix(site, "Close:atomic.LoadUint32"):
		return "in2"
	case strings.HasPrefix(site, "Close:atomic.CompareAndSwapUint32"):
		return "in1"
	case strings.HasPrefix(site, "fillDataToReadBuffer:atomic.StoreUint32"):
		return "store0"
	case strings.HasPrefix(site, "fillDataToReadBuffer:atomic.LoadUint32(&s.callbackCloseState"):
		return "loadClose"
	case strings.HasPrefix(site, "fillDataToReadBuffer:atomic.CompareAndSwapUint32"):
		return "recheck"
	case strings.HasPrefix(site, "close:atomic.CompareAndSwapUint32"):
		return "closeCas"
	}
	return "?" + site
}

func (c *c20Run) ePc() string {
	site := c.eth.site
	switch {
	case site == "eidle":
		return "idle"
	case strings.HasPrefix(site, "getStreamState:"):
		return "dataLoad"
	case strings.HasPrefix(site, "fillDataToReadBuffer:atomic.CompareAndSwapUint32"):
		return "dataCas"
	case strings.HasPrefix(site, "halfClose:"):
		return "pcloseCas"
	}
	return "?" + site
}

func (c *c20Run) uPc() string {
	l := c20Site(c.uth.site, true, c.uClean)
	switch l {
	case "in3":
		return "store"
	case "in2":
		return "loadIn"
	case "in1":
		return "casHalf"
	}
	return l
}

func (c *c20Run) pendBytes() int {
	n := 0
	c.st.pendingData.Lock()
	for _, w := range c.st.pendingData.unread {
		if w.fallbackSlice != nil {
			n += c.sizeFb[w.fallbackSlice]
		} else {
			n += c.sizeOff[w.offset]
		}
	}
	c.st.pendingData.Unlock()
	return n
}

func (c *c20Run) notified() int {
	n := int(c.sess.queueManager.sendQueue.size())
	for i := 0; i < 4000 && len(c.sess.sendCh) > 0; i++ {
		time.Sleep(25 * time.Microsecond)
	}
	c.conn.mu.Lock()
	for _, w := range c.conn.wr {
		if len(w) >= headerSize && header(w).MsgType() == typeStreamClose {
			n++
		}
	}
	c.conn.mu.Unlock()
	return n
}

func (c *c20Run) snap() string {
	var gs []string
	for i, th := range c.gth {
		gs = append(gs, c20Site(th.site, c.gClose[i], c.gClean[i]))
	}
	return fmt.Sprintf("st=%d ip=%d cr=%d pend=%d recv=%d e=%s u=%s g=%s calls=%d cons=%d off=%d max=%d note=%d ol=%d or=%d",
		c.st.getStreamState(), c.st.callbackInProcess, c.st.callbackCloseState, c.pendBytes(), c.st.recvBuf.Len(), c.ePc(), c.uPc(),
		strings.Join(gs, ","), c.calls, c.consumed, c.offered, c.maxOn, c.notified(), c.onLocal, c.onRemote)
}

func (c *c20Run) stepThread(th *vThread) {
	prev := th.site
	st0 := c.st.getStreamState()
	c.closeReturnedBeforeStep = c.closeReturned
	c.sched.step(th)
	// a thread parked at close()'s CAS won it iff this step turned the state into closed
	won := prev == "wgwait" || (strings.HasPrefix(prev, "close:") && st0 != uint32(streamClosed) && c.st.getStreamState() == uint32(streamClosed))
	if th.panicV != nil {
		c.setFail("panic", fmt.Sprintf("panic: %v", th.panicV))
	}
	for i, g := range c.gth {
		if g == th && strings.HasPrefix(prev, "fillDataToReadBuffer:atomic.LoadUint32(&s.callbackCloseState") && strings.HasPrefix(th.site, "getStreamState:") {
			c.gClose[i] = true
		}
		if g == th && won && strings.HasPrefix(th.site, "getStreamState:") {
			c.gClean[i] = true
		}
	}
	if th == c.uth && won && strings.HasPrefix(th.site, "getStreamState:") {
		c.uClean = true
	}
	c.adopt()
}

func (c *c20Run) stepE(cmd string, n int) {
	if c.eIdle {
		switch cmd {
		case "":
			return
		case "data", "dataf":
			c.ecmd, c.ewrap = "data", c.makeData(n, cmd == "dataf")
		case "pclose":
			c.ecmd = "pclose"
			if !c.peerCloseIssued {
				c.owedAtPeerClose = len(c.stream)
			}
			c.peerCloseIssued = true
		}
	}
	c.stepThread(c.eth)
}

func (c *c20Run) wgZero() bool {
	vWgMu.Lock()
	defer vWgMu.Unlock()
	return vWgCount[&c.st.asyncGoroutineWg] <= 0
}

func (c *c20Run) gBlocked(i int) bool {
	th := c.gth[i]
	return th.done || (th.site == "wgwait" && !c.wgZero())
}

func (c *c20Run) uBlocked() bool {
	th := c.uth
	return th.done || th.site == "start" || (th.site == "wgwait" && !c.wgZero())
}

func (c *c20Run) quiescent() bool {
	if !c.eIdle {
		return false
	}
	for _, th := range c.gth {
		if !th.done {
			return false
		}
	}
	return c.uth.done || c.uth.site == "start"
}

func (c *c20Run) finish() {
	for f := 0; f < 100000; f++ {
		if !c.eIdle {
			c.stepE("", 0)
			continue
		}
		moved := false
		for i := range c.gth {
			if !c.gBlocked(i) {
				c.odK, c.odClose = 1000000, false
				c.stepThread(c.gth[i])
				moved = true
				break
			}
		}
		if moved {
			continue
		}
		if c.uBlocked() {
			return
		}
		c.stepThread(c.uth)
	}
}

// the property, evaluated on the real objects whenever nothing is in progress
func (c *c20Run) checkQuiescent(when string) {
	if !c.quiescent() {
		return
	}
	st := c.st.getStreamState()
	pend, recv := c.pendBytes(), c.st.recvBuf.Len()
	closeReq := c.st.callbackCloseState == uint32(callbackWaitExit)
	switch {
	case st == uint32(streamOpened) && (pend > 0 || recv > 0):
		// S (C20): without further traffic every received byte is made available to an OnData call
		c.setFail("stranded", fmt.Sprintf("%s: stream open, event loop idle, no callback goroutine alive, yet %d byte(s) pending and %d in the read buffer were never offered", when, pend, recv))
	case st == uint32(streamHalfClosed) && !closeReq && c.offered < c.owedAtPeerClose:
		c.setFail("peer-close-drops-unoffered-data", fmt.Sprintf("%s: the peer flushed %d byte(s) and then closed; only the first %d were ever offered to OnData, no goroutine is left to offer the rest (stream not closed locally)", when, c.owedAtPeerClose, c.offered))
	}
	if c.closeReturned && st != uint32(streamClosed) {
		// S (C20 / C10): once Close has returned and its deferred work is done the stream is closed
		c.setFail("close-not-final", fmt.Sprintf("%s: Close() returned nil, nothing is in progress, yet the stream state is %d (not closed); its buffers are still held", when, st))
	}
	if st == uint32(streamClosed) {
		n := c.notified()
		if n > 1 {
			c.setFail("close-notified-twice", fmt.Sprintf("%s: %d close notifications were sent to the peer", when, n))
		}
		if n == 0 && !c.peerCloseIssued {
			c.setFail("close-in-process-no-notify", fmt.Sprintf("%s: the stream was closed locally (Close called while a callback goroutine was in process), the peer never closed, and no close notification was sent to the peer", when))
		}
		if f := int(*c.bm.lists[0].size); f != c.free0 {
			c.setFail("closed-stream-holds-buffers", fmt.Sprintf("%s: stream closed and quiescent, yet %d of %d buffers are free", when, f, c.free0))
		}
	}
}

// ---- bigframe <slices> <frames>: a real pair, the server's stream in callback mode. While OnData is held, the client
// flushes one message whose chain is <slices> slices long and then <frames> small ones, OnData being released while the
// client is still flushing: every byte flushed must be offered to OnData exactly once, in order, by one call at a time ----

type c20BigCB struct {
	mu      sync.Mutex
	got     []byte
	inCall  int32
	overlap bool
	gate    chan struct{}
	first   bool
}

func (b *c20BigCB) OnData(r BufferReader) {
	if atomic.AddInt32(&b.inCall, 1) != 1 {
		b.overlap = true
	}
	defer atomic.AddInt32(&b.inCall, -1)
	b.mu.Lock()
	first := !b.first
	b.first = true
	b.mu.Unlock()
	if first {
		<-b.gate
	}
	for r.Len() > 0 {
		n := r.Len()
		d, err := r.ReadBytes(n)
		if err != nil {
			return
		}
		b.mu.Lock()
		b.got = append(b.got, d...)
		b.mu.Unlock()
		r.ReleasePreviousRead()
	}
}
func (b *c20BigCB) OnLocalClose()  {}
func (b *c20BigCB) OnRemoteClose() {}

type c20BigLCB struct{ cb *c20BigCB }

func (l *c20BigLCB) OnNewStream(s *Stream)     { s.SetCallbacks(l.cb) }
func (l *c20BigLCB) OnShutdown(reason string) {}

func c20BigByte(i int) byte { return byte((i*13 + 5) % 253) }

func c20BigFrame(f []string) vResult {
	res := vResult{noModel: true, out: []string{"done"}, tags: []string{"long-chain-with-arrivals-during-the-move"}}
	slices, frames := vAtoi(f[1]), vAtoi(f[2])
	if slices < 1 || slices > 2000 || frames < 1 || frames > 20000 {
		res.out = []string{"bad-op"}
		return res
	}
	internalLogger = &logger{"", io.Discard, 3}
	prefix := fmt.Sprintf("/dev/shm/verif_c20b_%d_%d", os.Getpid(), atomic.AddUint64(&c20Seq, 1))
	fds, err := syscall.Socketpair(syscall.AF_UNIX, syscall.SOCK_STREAM|syscall.SOCK_CLOEXEC, 0)
	if err != nil {
		res.specFail, res.key = err.Error(), "setup"
		return res
	}
	f0, f1 := os.NewFile(uintptr(fds[0]), "a"), os.NewFile(uintptr(fds[1]), "b")
	ca, _ := net.FileConn(f0)
	cb, _ := net.FileConn(f1)
	f0.Close()
	f1.Close()
	const sliceSize = 256
	mk := func(p string) *Config {
		cfg := c12Config(p, MemMapTypeMemFd)
		cfg.ShareMemoryBufferCap = 16 << 20
		cfg.BufferSliceSizes = []*SizePercentPair{{Size: sliceSize, Percent: 100}}
		cfg.QueueCap = 1 << 15
		return cfg
	}
	bcb := &c20BigCB{gate: make(chan struct{})}
	scfg := mk(prefix + "_srv")
	scfg.listenCallback = &c20BigLCB{cb: bcb}
	chC := c12Start(mk(prefix), ca, true)
	chS := c12Start(scfg, cb, false)
	rc, okc := c12Wait(chC, 20*time.Second)
	rs, oks := c12Wait(chS, 20*time.Second)
	defer func() {
		c12CloseSession(rc.sess)
		c12CloseSession(rs.sess)
	}()
	if !okc || !oks || rc.err != nil || rs.err != nil {
		res.specFail, res.key = fmt.Sprintf("establishment failed: %v / %v", rc.err, rs.err), "setup"
		return res
	}
	st, err := rc.sess.OpenStream()
	if err != nil {
		res.specFail, res.key = "OpenStream: "+err.Error(), "setup"
		return res
	}
	sent := 0
	send := func(n int) error {
		d := make([]byte, n)
		for i := range d {
			d[i] = c20BigByte(sent + i)
		}
		if _, err := st.BufferWriter().WriteBytes(d); err != nil {
			return err
		}
		if err := st.Flush(false); err != nil {
			return err
		}
		sent += n
		return nil
	}
	fail := func(key, what string) vResult {
		select {
		case <-bcb.gate:
		default:
			close(bcb.gate)
		}
		res.specFail, res.key = what, key
		return res
	}
	if err := send(8); err != nil { // frame 0: OnData is entered and held
		return fail("setup", "first frame: "+err.Error())
	}
	if err := send(slices * sliceSize); err != nil {
		return fail("setup", "long frame: "+err.Error())
	}
	released := false
	for i := 0; i < frames; i++ {
		if !released && i >= frames/8 {
			close(bcb.gate)
			released = true
		}
		if err := send(8); err != nil {
			return fail("setup", fmt.Sprintf("frame %d: %v", i, err))
		}
	}
	if !released {
		close(bcb.gate)
	}
	// quiescence: everything flushed has been offered
	n := 0
	for t0 := time.Now(); time.Since(t0) < 10*time.Second; {
		bcb.mu.Lock()
		n = len(bcb.got)
		bcb.mu.Unlock()
		if n >= sent {
			break
		}
		time.Sleep(2 * time.Millisecond)
	}
	bcb.mu.Lock()
	got := append([]byte{}, bcb.got...)
	bcb.mu.Unlock()
	if bcb.overlap {
		res.specFail, res.key = "two OnData calls of one stream ran at the same time", "ondata-overlap"
		return res
	}
	for i := range got {
		if i >= sent || got[i] != c20BigByte(i) {
			res.specFail, res.key = fmt.Sprintf("byte %d offered to OnData is not byte %d of what the peer flushed (%d bytes flushed, %d offered): bytes were skipped, repeated or reordered", i, i, sent, len(got)), "callback-bytes-lost"
			return res
		}
	}
	if len(got) != sent {
		res.specFail, res.key = fmt.Sprintf("the peer flushed %d bytes (one message of %d slices, then %d small ones while OnData was being released); %d were offered to OnData at quiescence", sent, slices, frames, len(got)), "callback-bytes-lost"
	}
	return res
}

func c20Exec(ops []string) vResult {
	if len(ops) == 1 && strings.HasPrefix(ops[0], "bigframe ") {
		if f := vFields(ops[0]); len(f) == 3 {
			return c20BigFrame(f)
		}
	}
	c := &c20Run{tags: map[string]bool{}}
	var out []string
	started := false
	defer func() {
		vS = nil
		if c.sess != nil {
			close(c.sess.shutdownCh)
		}
	}()
	for _, op := range ops {
		f := vFields(op)
		switch {
		case len(f) == 1 && f[0] == "init" && !started:
			if err := c.start(); err != nil {
				out = append(out, "bad-op")
				continue
			}
			started = true
			out = append(out, "ok")
		case started && f[0] == "e" && (len(f) == 1 || (len(f) == 2 && f[1] == "pclose") || (len(f) == 3 && (f[1] == "data" || f[1] == "dataf"))):
			cmd, n := "", 0
			if len(f) >= 2 {
				cmd = f[1]
			}
			if len(f) == 3 {
				n = vAtoi(f[2])
				if n < 1 || n > 64 {
					out = append(out, "bad-op")
					continue
				}
			}
			if !c.eIdle && c.ePc() == "dataCas" && c.st.callbackInProcess == 1 {
				c.tags["arrival-while-in-process"] = true
			}
			c.stepE(cmd, n)
			c.checkQuiescent("after " + op)
			out = append(out, c.snap())
		case started && len(f) == 4 && f[0] == "g":
			i := vAtoi(f[1])
			if i >= 0 && i < len(c.gth) && !c.gth[i].done {
				c.odK, c.odClose = vAtoi(f[2]), f[3] == "1"
				if c.gth[i].site == "wgwait" {
					c.tags["g-waits-for-g"] = true
				}
				was := c20Site(c.gth[i].site, c.gClose[i])
				c.stepThread(c.gth[i])
				if was == "recheck" && c20Site(c.gth[i].site, false) == "load" {
					c.tags["recheck-retakes"] = true
				}
				if was == "recheck" && c.gth[i].done {
					c.tags["recheck-loses"] = true
				}
			}
			c.checkQuiescent("after " + op)
			out = append(out, c.snap())
		case started && len(f) == 1 && f[0] == "u":
			if !c.uth.done && !(c.uth.site == "wgwait" && false) {
				c.stepThread(c.uth)
			}
			c.checkQuiescent("after " + op)
			out = append(out, c.snap())
		case started && len(f) == 1 && f[0] == "setcb":
			// the application calls SetCallbacks a second time: refused, and nothing else may change
			if err := c.st.SetCallbacks(&c20CB{c: c}); err != ErrStreamCallbackHadExisted {
				c.setFail("second-setcallbacks-accepted", fmt.Sprintf("SetCallbacks on a stream that has callbacks returned %v", err))
			}
			c.tags["setcallbacks-again"] = true
			out = append(out, "refused "+c.snap())
		case started && len(f) == 1 && f[0] == "finish":
			c.finish()
			c.checkQuiescent("after finish")
			out = append(out, "done "+c.snap())
		default:
			out = append(out, "bad-op")
		}
	}
	if started {
		c.finish()
		c.checkQuiescent("at the end")
		if !c.quiescent() {
			c.setFail("deadlock", "threads cannot finish: "+c.snap())
		}
		c.eStop = true
		c.sched.step(c.eth)
		if c.uth.site == "start" {
			// never started: let it run to completion so the goroutine is not leaked
			c.sched.filter = func(string) bool { return false }
			for k := 0; k < 10 && !c.uth.done; k++ {
				c.sched.step(c.uth)
			}
		}
	}
	var tags []string
	for t := range c.tags {
		tags = append(tags, t)
	}
	return vResult{out: out, specFail: c.fail, key: c.key, tags: tags}
}

func c20Gen(r *rand.Rand, tier string, idx int) []string {
	if idx%150 == 11 {
		return []string{fmt.Sprintf("bigframe %d %d", 200+r.Intn(600), 1000+r.Intn(3000))}
	}
	ops := []string{"init"}
	n := 3 + r.Intn(16) // bursts
	closeInCb := r.Intn(3) == 0
	userClose := r.Intn(3) == 0
	peerClose := r.Intn(3) == 0
	ng := 0 // upper bound of the goroutines spawned so far
	pclosed := false
	gop := func(g int) string {
		k := 1000
		if r.Intn(3) == 0 {
			k = []int{0, 1, 5}[r.Intn(3)]
		}
		cl := 0
		if closeInCb && r.Intn(5) == 0 {
			cl = 1
		}
		return fmt.Sprintf("g %d %d %d", g, k, cl)
	}
	for i := 0; i < n; i++ {
		burst := 1 + r.Intn(4)
		switch x := r.Intn(20); {
		case x < 6:
			// the event loop: a command and up to burst-1 continuation steps
			switch {
			case peerClose && !pclosed && r.Intn(5) == 0:
				ops = append(ops, "e pclose")
				pclosed = true
			case pclosed && r.Intn(10) > 0:
				ops = append(ops, "e") // the peer does not send after its close (kept rarely, as robustness input)
			default:
				kind := "data"
				if r.Intn(6) == 0 {
					kind = "dataf"
				}
				ops = append(ops, fmt.Sprintf("e %s %d", kind, 1+r.Intn(40)))
				ng++
			}
			for j := 1; j < burst; j++ {
				ops = append(ops, "e")
			}
		case x < 15:
			g := 0
			if ng > 0 {
				g = ng - 1 - r.Intn(2)
				if g < 0 || r.Intn(5) == 0 {
					g = r.Intn(ng)
				}
			}
			for j := 0; j < burst+r.Intn(3); j++ {
				ops = append(ops, gop(g))
			}
		case x < 18:
			if userClose {
				for j := 0; j < burst; j++ {
					ops = append(ops, "u")
				}
			} else {
				ops = append(ops, "e")
			}
		default:
			if z := r.Intn(6); z < 2 {
				ops = append(ops, "finish")
			} else if z == 2 {
				ops = append(ops, "setcb")
			} else {
				ops = append(ops, gop(r.Intn(ng+1)))
			}
		}
	}
	return append(ops, "finish")
}
