//go:build verif

package shmipc

// C07 / C09 / C10: two real in-package sessions (client a, server b) multiplexing streams; control-connection events are
// delivered one at a time by explicit steps. Single harness goroutine (plus the real send loops).
// Line protocol (shared with ShmVerif/Drv/C07.lean):
//   init <qcap> cap:n ...                    open <x>
//   wb|rsv <x> <id> <hex>   wbyte <x> <id> <b>   flush <x> <id>   close <x> <id>
//   deliver <x>                               x's event loop handles the next event its peer wrote
//   rb|pk|dc|rd <x> <id> <n>   rel <x> <id>   take|give <c> <k>

import (
	"bytes"
	"encoding/hex"
	"fmt"
	"math/rand"
	"strconv"
	"strings"
	"sync/atomic"
	"time"
)

func init() {
	mk := func(flavour string) *vProp {
		return &vProp{model: "c07", quickN: 600, thoroughN: 10000,
			gen:  func(r *rand.Rand, t string, i int) []string { return c07Gen(r, t, i, flavour) },
			exec: func(ops []string) vResult { return c07Exec(ops, flavour) }}
	}
	vProps["C07"] = mk("C07")
	vProps["C09"] = mk("C09")
	vProps["C10"] = mk("C10")
	vProps["C15"] = mk("C15")
}

type c07Stream struct {
	st      *Stream
	pipeIn  []byte // flushed by the peer on this stream towards this end, not yet consumed
	wbuf    []byte
	closedLocal bool
	peerClosed  bool   // the peer called Close on its end of this stream
	lateBytes   int    // bytes at the tail of pipeIn that the peer flushed AFTER that Close (the server re-created the id)
	eosSeen bool
}

type c07End struct {
	name    string
	s       *Session
	conn    *vStubConn
	bm      *bufferManager
	streams map[int]*c07Stream
	all     []*Stream // every stream object ever created on this end
	taken   int
	cb      *c07ListenCB
}

type c07ListenCB struct {
	e *c07End
}

func (l *c07ListenCB) OnNewStream(s *Stream) {
	s.SetReadDeadline(time.Now().Add(-time.Hour))
	s.SetWriteDeadline(time.Now().Add(-time.Hour))
	l.e.all = append(l.e.all, s)
	old := l.e.streams[int(s.id)]
	ns := &c07Stream{st: s}
	if old != nil {
		// a new stream object for an id the server had closed: what the peer flushed and was never consumed is still owed
		ns.pipeIn = old.pipeIn
		ns.lateBytes, ns.peerClosed = old.lateBytes, old.peerClosed
	}
	l.e.streams[int(s.id)] = ns
}
func (l *c07ListenCB) OnShutdown(reason string) {}

type c07Msg struct{ id, size int }

type c07Run struct {
	pool   *streamPool
	pooled []int // ids in the pool, oldest first (harness view)
	heldP  map[int]bool // ids handed out by the pool and not yet put back
	inflQ  map[string][]c07Msg // per sending end: messages in its send queue, not yet drained by the peer
	inflK  map[string][]c07Msg // per sending end: fallback messages written to the connection, not yet delivered
	ends   map[string]*c07End
	held   [][]*bufferSlice
	caps   []int
	nums   []int
	qcap   int
	fail   string
	key    string
	tags   map[string]bool
	prop   string
	dead   bool
}

func (c *c07Run) setFail(key, what string) {
	if c.fail == "" {
		c.fail, c.key = what, key
	}
}

func (c *c07Run) init(qcap int, ws []string) error {
	caps, nums := c06Classes(ws)
	if len(caps) == 0 || qcap < 1 || qcap > 64 {
		return fmt.Errorf("bad init")
	}
	for i := range caps {
		if caps[i] <= 0 || nums[i] <= 0 || caps[i] > 1<<16 || nums[i] > 64 || (i > 0 && caps[i] <= caps[i-1]) {
			return fmt.Errorf("bad class")
		}
	}
	_, bmA, bmB, err := c06BuildMem(caps, nums)
	if err != nil {
		return err
	}
	c.caps, c.nums, c.qcap = caps, nums, qcap
	c.inflQ = map[string][]c07Msg{}
	c.inflK = map[string][]c07Msg{}
	c.held = make([][]*bufferSlice, len(caps))
	qa, qb := vQueuePair(uint32(qcap))
	ca, cb := &vStubConn{}, &vStubConn{}
	sa := vBareSession(true, qa, bmA, ca)
	sb := vBareSession(false, qb, bmB, cb)
	debugMode = true
	c.ends = map[string]*c07End{
		"a": {name: "a", s: sa, conn: ca, bm: bmA, streams: map[int]*c07Stream{}},
		"b": {name: "b", s: sb, conn: cb, bm: bmB, streams: map[int]*c07Stream{}},
	}
	for _, e := range c.ends {
		e.s.dispatcher = &vStubDispatcher{}
		e.cb = &c07ListenCB{e: e}
		e.s.config.listenCallback = e.cb
		go e.s.send()
	}
	return nil
}

func (c *c07Run) closeAll() {
	for _, e := range c.ends {
		select {
		case <-e.s.shutdownCh:
		default:
			close(e.s.shutdownCh)
		}
	}
}

func (c *c07Run) free() string {
	var fs []string
	for _, l := range c.ends["a"].bm.lists {
		fs = append(fs, fmt.Sprintf("%d", *l.size))
	}
	return strings.Join(fs, ",")
}

func (c *c07Run) undelivered(x string) int {
	e := c.ends[x]
	for i := 0; i < 4000 && len(e.s.sendCh) > 0; i++ {
		time.Sleep(25 * time.Microsecond)
	}
	e.conn.mu.Lock()
	defer e.conn.mu.Unlock()
	return len(e.conn.wr) - e.taken
}

func (c *c07Run) gsuffix() string {
	a, b := c.ends["a"], c.ends["b"]
	return fmt.Sprintf(" free=%s act=%d,%d q=%d,%d k=%d,%d", c.free(), a.s.GetActiveStreamCount(), b.s.GetActiveStreamCount(),
		a.s.queueManager.sendQueue.size(), b.s.queueManager.sendQueue.size(), c.undelivered("a"), c.undelivered("b"))
}

func (c *c07Run) suffix(x string, id int) string {
	st := c.ends[x].streams[id]
	if st == nil {
		return " st=0 len=0" + c.gsuffix()
	}
	return fmt.Sprintf(" st=%d len=%d", st.st.getStreamState(), st.st.recvBuf.Len()) + c.gsuffix()
}

func (c *c07Run) setDeadlines(st *Stream) {
	// open streams: expired deadline (a read that would block reports time-out); otherwise none (close notification decides)
	if st.IsOpen() {
		st.SetReadDeadline(time.Now().Add(-time.Hour))
	} else {
		st.SetReadDeadline(time.Time{})
	}
}

func (c *c07Run) peerStream(x string, id int) *c07Stream {
	return c.ends[peerName(x)].streams[id]
}

func (c *c07Run) readResult(x string, id int, op string, n int, data []byte, cnt int, err error, consume bool) string {
	s := c.ends[x].streams[id]
	if err != nil {
		switch err {
		case ErrTimeout:
			return "timeout"
		case ErrEndOfStream:
			// S (C07): end-of-stream only after every byte the peer flushed successfully before closing was offered
			if s.lateBytes > len(s.pipeIn) {
				s.lateBytes = len(s.pipeIn)
			}
			if owed := len(s.pipeIn) - s.lateBytes - s.st.recvBuf.Len(); owed > 0 && !s.closedLocal {
				c.setFail("eos-before-data", fmt.Sprintf("stream %d on %s: reader is told end-of-stream while %d byte(s) the peer flushed before closing have not been offered (they are not in the read buffer)", id, x, owed))
			}
			c.tags["eos"] = true
			return "eos"
		case ErrStreamClosed:
			c.tags["read-on-closed"] = true
			return "closed"
		}
		return "err"
	}
	if op == "dc" {
		if cnt > len(s.pipeIn) || cnt != n {
			c.setFail("pipe-mismatch", fmt.Sprintf("Discard(%d) on stream %d/%s = %d with %d bytes owed", n, id, x, cnt, len(s.pipeIn)))
		} else {
			s.pipeIn = s.pipeIn[cnt:]
		}
		return fmt.Sprintf("ok %d", cnt)
	}
	// S (C07): only bytes written to this stream and direction, in the order they were flushed
	if len(data) > len(s.pipeIn) || !bytes.Equal(data, s.pipeIn[:len(data)]) {
		exp := s.pipeIn
		if len(exp) > len(data) {
			exp = exp[:len(data)]
		}
		c.setFail("pipe-mismatch", fmt.Sprintf("%s on stream %d/%s returned %x, the peer flushed %x next on this stream", op, id, x, trunc(data), trunc(exp)))
	} else if consume {
		s.pipeIn = s.pipeIn[len(data):]
	}
	return "ok " + hex.EncodeToString(data)
}

// c15CrossSession: the pool's session is replaced (the manager rebuilt it) while a caller still holds a stream of the old
// session, whose tear-down has not run yet; the caller gives the stream back; the next GetStream must not hand it out.
// ops: "pxs <held> <back>": <held> streams taken from the pool before the session is lost, <back> of them given back.
func c15CrossSession(f []string) vResult {
	res := vResult{noModel: true, out: []string{"done"}}
	held, back := vAtoi(f[1]), vAtoi(f[2])
	if held < 1 || held > 4 || back < 0 || back > held {
		res.out = []string{"bad-op"}
		return res
	}
	mk := func() *c07Run {
		c := &c07Run{tags: map[string]bool{}, prop: "C15"}
		if c.init(4, []string{"16:8"}) != nil {
			return nil
		}
		return c
	}
	c1, c2 := mk(), mk()
	if c1 == nil || c2 == nil {
		res.specFail, res.key = "could not build the sessions", "setup"
		return res
	}
	defer c1.closeAll()
	defer c2.closeAll()
	old, fresh := c1.ends["a"].s, c2.ends["a"].s
	pool := newStreamPool(4)
	pool.session.Store(old)
	var mine []*Stream
	for i := 0; i < held; i++ {
		st, err := pool.getOrOpenStream()
		if err != nil {
			res.specFail, res.key = "GetStream on a healthy session: "+err.Error(), "pool-get-error"
			return res
		}
		mine = append(mine, st)
	}
	old.Close()               // the session is lost: marked shut down at once, its streams are torn down later by the event loop
	pool.session.Store(fresh) // the manager's watcher rebuilt the session
	for i := 0; i < back; i++ {
		pool.putOrCloseStream(mine[i])
	}
	for i := 0; i < held+1; i++ {
		st, err := pool.getOrOpenStream()
		if err != nil {
			res.specFail, res.key = "GetStream after the session was rebuilt: "+err.Error(), "pool-get-error"
			return res
		}
		// S (C15): a stream handed out is open, clean and belongs to a live session
		if st.Session().IsClosed() {
			res.specFail = fmt.Sprintf("GetStream handed out stream %d of a session that is shut down (the pool's session was rebuilt; the stream was given back after that)", st.id)
			res.key = "pool-hands-out-stream-of-dead-session"
			return res
		}
		if !st.IsOpen() {
			res.specFail, res.key = "GetStream handed out a stream that is not open", "pool-hands-out-closed-stream"
			return res
		}
	}
	res.tags = []string{"pool-session-rebuilt-while-streams-held"}
	return res
}

func c07Exec(ops []string, prop string) vResult {
	if prop == "C15" && len(ops) == 1 && strings.HasPrefix(ops[0], "pxs ") {
		if f := vFields(ops[0]); len(f) == 3 {
			return c15CrossSession(f)
		}
	}
	if len(ops) == 1 && strings.HasPrefix(ops[0], "fbiso ") {
		if f := vFields(ops[0]); len(f) == 3 {
			return c07FallbackIsolation(f)
		}
	}
	c := &c07Run{tags: map[string]bool{}, prop: prop}
	var out []string
	defer func() {
		if c.ends != nil {
			c.closeAll()
		}
	}()
	var exec1 func(op string, f []string) string
	for _, op := range ops {
		f := vFields(op)
		if c.dead {
			out = append(out, "dead")
			continue
		}
		if f[0] == "init" && len(f) >= 3 {
			if c.ends != nil || c.init(vAtoi(f[1]), f[2:]) != nil {
				out = append(out, "bad-op")
				continue
			}
			out = append(out, "ok")
			continue
		}
		if c.ends == nil {
			out = append(out, "bad-op")
			continue
		}
		exec1 = func(op string, f []string) (line string) {
			defer func() {
				if r := recover(); r != nil {
					c.dead = true
					c.setFail("panic", fmt.Sprintf("panic in %q: %v", op, r))
					line = "panic"
				}
			}()
			x := ""
			if len(f) > 1 {
				x = f[1]
			}
			e := c.ends[x]
			id := 0
			if len(f) > 2 {
				id = vAtoi(f[2])
			}
			var s *c07Stream
			if e != nil {
				s = e.streams[id]
			}
			// a stream that sits in the pool belongs to the pool: callers do not touch it (using a stream after PutBack is
			// the caller breaking the pool's contract, not something the properties speak about)
			if x == "a" && len(f) > 2 && f[0] != "pput" {
				for _, pid := range c.pooled {
					if pid == id {
						return "inpool"
					}
				}
			}
			switch {
			case f[0] == "open" && len(f) == 2 && e != nil:
				st, err := e.s.OpenStream()
				if err != nil {
					return "err"
				}
				st.SetReadDeadline(time.Now().Add(-time.Hour))
				st.SetWriteDeadline(time.Now().Add(-time.Hour))
				e.streams[int(st.id)] = &c07Stream{st: st}
				e.all = append(e.all, st)
				return fmt.Sprintf("ok %d", st.id) + c.gsuffix()
			case (f[0] == "wb" || f[0] == "rsv") && len(f) == 4 && e != nil:
				if s == nil || s.st == nil {
					return "missing"
				}
				d, _ := hex.DecodeString(f[3])
				if f[0] == "wb" {
					s.st.BufferWriter().WriteBytes(d)
				} else {
					buf, err := s.st.BufferWriter().Reserve(len(d))
					if err == nil {
						copy(buf, d)
					}
				}
				s.wbuf = append(s.wbuf, d...)
				return fmt.Sprintf("ok wlen=%d", s.st.sendBuf.Len()) + c.suffix(x, id)
			case f[0] == "wbyte" && len(f) == 4 && e != nil:
				if s == nil || s.st == nil {
					return "missing"
				}
				s.st.BufferWriter().WriteByte(byte(vAtoi(f[3])))
				s.wbuf = append(s.wbuf, byte(vAtoi(f[3])))
				return fmt.Sprintf("ok wlen=%d", s.st.sendBuf.Len()) + c.suffix(x, id)
			case (f[0] == "flush" || f[0] == "flushd") && len(f) == 3 && e != nil:
				if s == nil || s.st == nil {
					return "missing"
				}
				wlen := s.st.sendBuf.Len()
				fbBefore := e.s.stats.fallbackWriteCount
				var err error
				if f[0] == "flushd" {
					// Flush finds the queue full and retries (10 ms apart) while the peer drains the queue: the retried put
					// succeeds, and the element must still be announced to the (by now idle) consumer
					s.st.SetWriteDeadline(time.Time{})
					qf0 := atomic.LoadUint64(&e.s.stats.queueFullErrorCount)
					done := make(chan error, 1)
					// the retry waits until the drain below is complete (else which of the two comes first is a matter of load)
					gate := make(chan struct{})
					vSetRetryGate(gate)
					go func() { done <- s.st.Flush(false) }()
					full := false
					for t0 := time.Now(); time.Since(t0) < 2*time.Second; {
						if atomic.LoadUint64(&e.s.stats.queueFullErrorCount) != qf0 {
							full = true
							break
						}
						select {
						case err = <-done:
							done <- err
							t0 = time.Time{}
						default:
							time.Sleep(200 * time.Microsecond)
						}
					}
					if full {
						c.tags["flush-retried-while-peer-drains"] = true
						for c.undelivered(x) > 0 {
							exec1("deliver "+peerName(x), []string{"deliver", peerName(x)})
						}
					}
					close(gate)
					select {
					case err = <-done:
						vSetRetryGate(nil)
					case <-time.After(5 * time.Second):
						vSetRetryGate(nil)
						c.setFail("flush-hangs", "Flush did not return within 5 s of the peer draining the full queue")
						return "hang"
					}
				} else {
					s.st.SetWriteDeadline(time.Now().Add(-time.Hour)) // Stream.reset (pool) clears it; a full queue must answer at once
					err = s.st.Flush(false)
				}
				r := "shm"
				switch {
				case err == ErrStreamClosed:
					r = "closed"
					c.tags["flush-on-closed"] = true
				case err == ErrTimeout:
					r = "timeout"
					c.tags["queue-full"] = true
				case err != nil:
					r = "err"
					c.setFail("flush-error", "Flush returned "+err.Error())
				case wlen == 0:
					r = "noop"
				case e.s.stats.fallbackWriteCount != fbBefore:
					r = "fallback"
					c.tags["fallback-transport"] = true
				}
				if err == nil && wlen > 0 {
					// successfully flushed: owed to the peer's end of this stream (created on delivery if need be)
					p := c.ends[peerName(x)]
					ps := p.streams[id]
					if ps == nil {
						ps = &c07Stream{}
						p.streams[id] = ps
					}
					ps.pipeIn = append(ps.pipeIn, s.wbuf...)
					if ps.peerClosed {
						// flushed on a stream object the server created for this id after its first object was closed: these
						// bytes come after the close notification, the reader may rightly be told end-of-stream before them
						ps.lateBytes += len(s.wbuf)
					}
					if r == "fallback" {
						c.inflK[x] = append(c.inflK[x], c07Msg{id, len(s.wbuf)})
					} else {
						c.inflQ[x] = append(c.inflQ[x], c07Msg{id, len(s.wbuf)})
					}
				}
				// S (C10): after a local Close every later operation fails with a closed-stream error
				if s.closedLocal && wlen > 0 && err != ErrStreamClosed {
					c.setFail("op-after-close", fmt.Sprintf("Flush on locally closed stream %d/%s returned %v", id, x, err))
				}
				s.wbuf = nil
				return r + c.suffix(x, id)
			case f[0] == "close" && len(f) == 3 && e != nil:
				if s == nil || s.st == nil {
					return "missing"
				}
				err := s.st.Close()
				if err != nil {
					c.setFail("close-error", "Close returned "+err.Error())
				}
				s.closedLocal = true
				s.wbuf = nil
				// whatever had arrived and was not read is dropped by the local close; what is still in flight is still owed
				// (on the server it will surface as a new stream with the same id)
				owed := 0
				for _, m := range c.inflQ[peerName(x)] {
					if m.id == id {
						owed += m.size
					}
				}
				for _, m := range c.inflK[peerName(x)] {
					if m.id == id {
						owed += m.size
					}
				}
				if owed <= len(s.pipeIn) {
					s.pipeIn = s.pipeIn[len(s.pipeIn)-owed:]
				}
				if ps := c.peerStream(x, id); ps != nil {
					ps.peerClosed = true
				}
				if e.s.getStreamById(uint32(id)) == s.st {
					c.setFail("still-active", fmt.Sprintf("stream %d/%s still counts as active after Close", id, x))
				}
				return "ok" + c.suffix(x, id)
			case f[0] == "deliver" && len(f) == 2 && e != nil:
				p := c.ends[peerName(x)]
				if c.undelivered(peerName(x)) == 0 {
					return "noop" + c.gsuffix()
				}
				p.conn.mu.Lock()
				m := p.conn.wr[p.taken]
				p.taken++
				p.conn.mu.Unlock()
				if len(m) >= 8 {
					switch eventType(m[7]) {
					case typePolling:
						c.inflQ[peerName(x)] = nil
					case typeFallbackData:
						if len(c.inflK[peerName(x)]) > 0 {
							c.inflK[peerName(x)] = c.inflK[peerName(x)][1:]
						}
					}
				}
				vDeliverEvent(e.s, m)
				if e.s.IsClosed() {
					c.setFail("session-died", "a session closed itself while handling a well-formed event of its peer: "+fmt.Sprint(e.s.shutdownErr))
				}
				return "ok" + c.gsuffix()
			case (f[0] == "rb" || f[0] == "pk" || f[0] == "dc" || f[0] == "rd") && len(f) == 4 && e != nil:
				if s == nil || s.st == nil {
					return "missing"
				}
				n := vAtoi(f[3])
				c.setDeadlines(s.st)
				var line string
				var err error
				switch f[0] {
				case "rb":
					var d []byte
					d, err = s.st.BufferReader().ReadBytes(n)
					line = c.readResult(x, id, "rb", n, d, 0, err, true)
				case "pk":
					var d []byte
					d, err = s.st.BufferReader().Peek(n)
					line = c.readResult(x, id, "pk", n, d, 0, err, false)
				case "dc":
					var k int
					k, err = s.st.BufferReader().Discard(n)
					line = c.readResult(x, id, "dc", n, nil, k, err, true)
				case "rd":
					if n == 0 {
						return "ok " + c.suffix(x, id)
					}
					p := make([]byte, n)
					var k int
					k, err = s.st.Read(p)
					line = c.readResult(x, id, "rd", n, p[:k], 0, err, true)
				}
				if s.closedLocal && n > 0 && err == nil {
					c.setFail("op-after-close", fmt.Sprintf("%s on locally closed stream %d/%s succeeded", f[0], id, x))
				}
				return line + c.suffix(x, id)
			case f[0] == "rel" && len(f) == 3 && e != nil:
				if s == nil || s.st == nil {
					return "missing"
				}
				s.st.BufferReader().ReleasePreviousRead()
				return "ok" + c.suffix(x, id)
			case f[0] == "reuse" && len(f) == 3 && e != nil:
				if s == nil || s.st == nil {
					return "missing"
				}
				unreadBefore, sendBefore := s.st.recvBuf.Len(), s.st.sendBuf.Len()
				s.st.ReleaseReadAndReuse()
				c.tags["release-and-reuse"] = true
				if unreadBefore > 0 {
					c.tags["release-and-reuse-with-unread-bytes"] = true
					// S (C15 / C06): bytes the application has not read yet are not turned into bytes it is about to send
					if s.st.sendBuf.Len() != sendBefore || s.st.recvBuf.Len() != unreadBefore {
						c.setFail("reuse-moves-unread-bytes", fmt.Sprintf("ReleaseReadAndReuse on stream %d with %d unread byte(s): afterwards the read buffer holds %d and the send buffer %d (before: %d) - the unread rest would go out with the next request, and reset() no longer sees it", id, unreadBefore, s.st.recvBuf.Len(), s.st.sendBuf.Len(), sendBefore))
					}
				}
				return "ok" + c.suffix(x, id)
			case f[0] == "pool" && (len(f) == 2 || len(f) == 3) && c.pool == nil:
				c.pool = newStreamPool(uint32(vAtoi(f[1])))
				if len(f) == 3 {
					// an aged pool: its ring counters have already counted this many get/put cycles
					age, err := strconv.ParseUint(f[2], 10, 64)
					if err != nil {
						return "bad-op"
					}
					c.pool.head, c.pool.tail = age, age
					c.tags["pool-aged"] = true
				}
				c.pool.session.Store(c.ends["a"].s)
				c.heldP = map[int]bool{}
				return "ok"
			case f[0] == "pget" && len(f) == 1 && c.pool != nil:
				a := c.ends["a"]
				st, err := c.pool.getOrOpenStream()
				if err != nil {
					c.setFail("pool-get-error", "GetStream returned "+err.Error())
					return "err"
				}
				id := int(st.id)
				// which pooled streams were skipped: everything ahead of the returned one (or all, if a new stream was opened)
				skipped := c.pooled
				fresh := true
				for k, pid := range c.pooled {
					if pid == id {
						skipped = c.pooled[:k]
						c.pooled = c.pooled[k+1:]
						fresh = false
						break
					}
				}
				if fresh {
					c.pooled = nil
					a.streams[id] = &c07Stream{st: st}
					a.all = append(a.all, st)
				}
				for _, pid := range skipped {
					if ps := a.streams[pid]; ps != nil {
						ps.closedLocal = true // the pool discards them: they must have been closed (C15)
						ps.pipeIn = nil
						if q := c.peerStream("a", pid); q != nil {
							q.peerClosed = true
						}
						c.tags["pool-discarded"] = true
					}
				}
				// S (C15): open, on a live session, clean, and not handed to two callers
				if !st.IsOpen() || st.Session().IsClosed() {
					c.setFail("pool-handout-dead", fmt.Sprintf("GetStream returned stream %d which is not open / whose session is closed", id))
				}
				if st.recvBuf.Len() != 0 {
					c.setFail("pool-handout-dirty", fmt.Sprintf("GetStream returned stream %d with %d unread bytes of an earlier use", id, st.recvBuf.Len()))
				}

				if c.heldP[id] {
					c.setFail("pool-double-handout", fmt.Sprintf("stream %d handed to two callers", id))
				}
				c.heldP[id] = true
				if !fresh {
					c.tags["pool-reuse"] = true
				}
				st.SetReadDeadline(time.Now().Add(-time.Hour))
				st.SetWriteDeadline(time.Now().Add(-time.Hour))
				c.checkActive("after GetStream")
				return fmt.Sprintf("ok %d pooled=%d", id, len(c.pooled)) + c.gsuffix()
			case f[0] == "pput" && len(f) == 2 && c.pool != nil:
				id := vAtoi(f[1])
				a := c.ends["a"]
				ps := a.streams[id]
				if ps == nil || ps.st == nil {
					return "missing"
				}
				if !c.heldP[id] {
					return "notheld"
				}
				before := c.pool.tail - c.pool.head
				wasOpen, wasFb := ps.st.IsOpen(), ps.st.inFallbackState
				unread := ps.st.recvBuf.Len()
				ps.st.pendingData.Lock()
				npend := len(ps.st.pendingData.unread)
				ps.st.pendingData.Unlock()
				c.pool.putOrCloseStream(ps.st)
				delete(c.heldP, id)
				r := "pooled"
				if c.pool.tail-c.pool.head > before {
					c.pooled = append(c.pooled, id)
					// S (C15): a stream is kept for reuse only if it carries nothing of this use (its next user would get it)
					if unread > 0 || npend > 0 {
						c.setFail("pool-keeps-dirty-stream", fmt.Sprintf("PutBack kept stream %d in the pool although %d unread byte(s) and %d pending message(s) of this use are still on it", id, unread, npend))
					}
				} else {
					switch {
					case wasFb:
						r = "closed-fallback"
					case !wasOpen:
						r = "closed-notopen"
					case unread > 0:
						r = "closed-unread"
					case npend > 0:
						r = "closed-pending"
					default:
						r = "closed-full"
					}
					c.tags["pool-"+r] = true
					ps.closedLocal = true
					ps.wbuf = nil
					owed := 0
					for _, m := range c.inflQ["b"] {
						if m.id == id {
							owed += m.size
						}
					}
					for _, m := range c.inflK["b"] {
						if m.id == id {
							owed += m.size
						}
					}
					if owed <= len(ps.pipeIn) {
						ps.pipeIn = ps.pipeIn[len(ps.pipeIn)-owed:]
					}
					if q := c.peerStream("a", id); q != nil {
						q.peerClosed = true
					}
					// S (C15): a stream given back is either kept or closed
					if ps.st.getStreamState() != uint32(streamClosed) {
						c.setFail("pool-neither-kept-nor-closed", fmt.Sprintf("PutBack neither pooled nor closed stream %d", id))
					}
				}
				c.checkActive("after PutBack")
				return fmt.Sprintf("%s pooled=%d", r, len(c.pooled)) + c.gsuffix()
			case (f[0] == "take" || f[0] == "give") && len(f) == 3:
				ci, k := vAtoi(f[1]), vAtoi(f[2])
				if ci < 0 || ci >= len(c.caps) {
					return "bad-op"
				}
				bm := c.ends["a"].bm
				n := 0
				if f[0] == "take" {
					for i := 0; i < k; i++ {
						b, err := bm.lists[ci].pop()
						if err != nil {
							break
						}
						c.held[ci] = append(c.held[ci], b)
						n++
					}
				} else {
					for i := 0; i < k && len(c.held[ci]) > 0; i++ {
						bm.recycleBuffer(c.held[ci][0])
						c.held[ci] = c.held[ci][1:]
						n++
					}
				}
				return fmt.Sprintf("ok %d", n) + c.gsuffix()
			}
			return "bad-op"
		}
		line := exec1(op, f)
		out = append(out, line)
	}
	if c.ends != nil && !c.dead && c.fail == "" {
		c.quiesce()
	}
	var tags []string
	for t := range c.tags {
		tags = append(tags, t)
	}
	if c.ends != nil && len(c.ends["b"].streams) > 1 {
		tags = append(tags, "multi-stream")
	}
	return vResult{out: out, specFail: c.fail, key: c.key, tags: tags}
}

// S (C15): the client's active-stream count equals the streams that were not closed locally (held by callers + pooled)
func (c *c07Run) checkActive(when string) {
	a := c.ends["a"]
	want := 0
	for _, s := range a.streams {
		if s.st != nil && !s.closedLocal {
			want++
		}
	}
	if got := a.s.GetActiveStreamCount(); got != want {
		c.setFail("pool-leak", fmt.Sprintf("%s: the session counts %d active streams, callers hold + pool keeps %d", when, got, want))
	}
}

// quiescence (C09): everything in flight is delivered, every stream that ever existed on either end is closed, the
// environment returns what it took: every size class must offer its full capacity again.
func (c *c07Run) quiesce() {
	defer func() {
		if r := recover(); r != nil {
			c.setFail("panic", fmt.Sprintf("panic at quiescence: %v", r))
		}
	}()
	drainAll := func() {
		for round := 0; round < 200; round++ {
			moved := false
			for _, x := range []string{"a", "b"} {
				e, p := c.ends[x], c.ends[peerName(x)]
				for c.undelivered(peerName(x)) > 0 {
					p.conn.mu.Lock()
					m := p.conn.wr[p.taken]
					p.taken++
					p.conn.mu.Unlock()
					vDeliverEvent(e.s, m)
					moved = true
				}
			}
			if !moved {
				return
			}
		}
	}
	drainAll()
	// S (C05, at operation level): every event on either connection has been handled and both consumers are idle: an
	// element still sitting in a queue will never be looked at unless some unrelated later traffic happens to wake the peer
	for _, x := range []string{"a", "b"} {
		if n := c.ends[x].s.queueManager.sendQueue.size(); n > 0 {
			c.setFail("stranded-element", fmt.Sprintf("nothing is in flight on the connection of %s and its peer's consumer is idle, yet %d element(s) sit in the queue: enqueued without a wake-up", x, n))
		}
	}
	for _, x := range []string{"a", "b"} {
		e := c.ends[x]
		// every stream the harness knows, plus whatever is still registered in the session table
		for _, s := range e.streams {
			if s.st != nil {
				s.st.Close()
			}
		}
		e.s.streamLock.Lock()
		var rest []*Stream
		for _, st := range e.s.streams {
			rest = append(rest, st)
		}
		e.s.streamLock.Unlock()
		for _, st := range rest {
			st.Close()
		}
	}
	drainAll()
	for _, x := range []string{"a", "b"} {
		e := c.ends[x]
		e.s.streamLock.Lock()
		var rest []*Stream
		for _, st := range e.s.streams {
			rest = append(rest, st)
		}
		e.s.streamLock.Unlock()
		for _, st := range rest {
			st.Close()
		}
	}
	drainAll()
	bm := c.ends["a"].bm
	for ci := range c.held {
		for _, b := range c.held[ci] {
			bm.recycleBuffer(b)
		}
		c.held[ci] = nil
	}
	// known finding: bytes written to a stream AFTER its local Close and never flushed stay allocated in its send buffer
	lateWrites := make([]int, len(bm.lists))
	for _, x := range []string{"a", "b"} {
		for _, st := range c.ends[x].all {
			for sl := st.sendBuf.sliceList.front(); sl != nil; sl = sl.next() {
				if sl.isFromShm {
					for ci := range bm.lists {
						if int(sl.cap) == c.caps[ci] {
							lateWrites[ci]++
							break
						}
					}
				}
			}
		}
	}
	for ci, l := range bm.lists {
		if int(*l.size) != c.nums[ci] && int(*l.size)+lateWrites[ci] == c.nums[ci] {
			c.setFail("leak-write-after-close", fmt.Sprintf("class %d offers %d of %d buffers: %d buffer(s) sit in the send buffer of a stream that was written to after its Close and never flushed", ci, *l.size, c.nums[ci], lateWrites[ci]))
			return
		}
	}
	for ci, l := range bm.lists {
		if int(*l.size) != c.nums[ci] {
			c.setFail("leak", fmt.Sprintf("every stream closed on both ends and nothing in flight, but class %d (cap %d) offers %d of %d buffers", ci, c.caps[ci], *l.size, c.nums[ci]))
			return
		}
	}
	_, _, smm := c.ends["a"].s.GetMetrics()
	if smm.AllInUsedShareMemoryInBytes != 0 {
		c.setFail("leak", fmt.Sprintf("AllInUsedShareMemoryInBytes = %d at quiescence", smm.AllInUsedShareMemoryInBytes))
	}
	for _, x := range []string{"a", "b"} {
		if n := c.ends[x].s.GetActiveStreamCount(); n != 0 {
			c.setFail("still-active", fmt.Sprintf("%d stream(s) still active on %s after every stream was closed", n, x))
		}
	}
}

func c15Gen(r *rand.Rand) []string {
	if r.Intn(12) == 0 {
		h := 1 + r.Intn(4)
		return []string{fmt.Sprintf("pxs %d %d", h, r.Intn(h+1))}
	}
	cls := [][]string{{"16:8"}, {"8:6", "32:4"}}[r.Intn(2)]
	caps, _ := c06Classes(cls)
	ops := []string{fmt.Sprintf("init %d %s", []int{2, 4, 8}[r.Intn(3)], strings.Join(cls, " ")), c07PoolOp(r)}
	var seq byte
	n := 8 + r.Intn(40)
	id := func() int { return 2 + r.Intn(4) }
	for i := 0; i < n; i++ {
		switch k := r.Intn(20); {
		case k < 5:
			ops = append(ops, "pget")
		case k < 9:
			ops = append(ops, fmt.Sprintf("pput %d", id()))
		case k < 12:
			j := id()
			ops = append(ops, fmt.Sprintf("wb a %d %s", j, c06RandBytes(r, 1+r.Intn(caps[0]+3), &seq)), fmt.Sprintf("flush a %d", j))
		case k < 15:
			ops = append(ops, "deliver "+[]string{"a", "b"}[r.Intn(2)])
		case k < 16:
			j := id()
			ops = append(ops, fmt.Sprintf("wb b %d %s", j, c06RandBytes(r, 1+r.Intn(caps[0]+3), &seq)), fmt.Sprintf("flush b %d", j))
		case k < 17:
			ops = append(ops, fmt.Sprintf("%s a %d %d", []string{"rb", "dc"}[r.Intn(2)], id(), 1+r.Intn(caps[0])))
		case k < 18:
			j := id()
			ops = append(ops, fmt.Sprintf("close b %d", j))
			if r.Intn(2) == 0 {
				// the peer closes a stream that is (about to be) pooled: GetStream must discard AND close it
				ops = append(ops, fmt.Sprintf("pput %d", j), "deliver a", "deliver a", "pget")
			}
		case k < 19:
			ops = append(ops, fmt.Sprintf("rb b %d %d", id(), 1+r.Intn(caps[0])))
			if r.Intn(3) == 0 {
				// the caller gives a stream back with part of an answer unread, after the public ReleaseReadAndReuse
				j := id()
				ops = append(ops, fmt.Sprintf("wb b %d %s", j, c06RandBytes(r, 3+r.Intn(caps[0]-2), &seq)), fmt.Sprintf("flush b %d", j), "deliver a",
					fmt.Sprintf("rb a %d 1", j), fmt.Sprintf("reuse a %d", j), fmt.Sprintf("pput %d", j), "pget")
			}
		default:
			ops = append(ops, fmt.Sprintf("take %d %d", r.Intn(len(caps)), 1+r.Intn(4)))
		}
	}
	return ops
}

// pool of capacity 0..3; one in three has ring counters that are about to pass 2^32 (capacities that do not divide 2^32
// must not notice)
func c07PoolOp(r *rand.Rand) string {
	cp := r.Intn(4)
	if r.Intn(3) == 0 {
		return fmt.Sprintf("pool %d %d", cp, uint64(1)<<32-uint64(1+r.Intn(3)))
	}
	return fmt.Sprintf("pool %d", cp)
}

func c07Gen(r *rand.Rand, tier string, idx int, flavour string) []string {
	if flavour == "C15" {
		return c15Gen(r)
	}
	if flavour == "C07" && idx%400 == 13 {
		return []string{fmt.Sprintf("fbiso %d %d", 6+r.Intn(5), 100+r.Intn(100))}
	}
	cfgs := [][]string{{"16:6"}, {"8:6", "32:4"}, {"16:4", "64:4"}, {"4:10"}}
	cls := cfgs[r.Intn(len(cfgs))]
	caps, _ := c06Classes(cls)
	qcap := []int{1, 2, 4, 8}[r.Intn(4)]
	ops := []string{fmt.Sprintf("init %d %s", qcap, strings.Join(cls, " "))}
	var seq byte
	nstreams := 1 + r.Intn(3)
	var ids []int
	for i := 0; i < nstreams; i++ {
		ops = append(ops, "open a")
		ids = append(ids, 3+2*i) // client ids: nextStreamID starts at 1, AddUint32 → 2? (the harness output tells; ids are guessed the same way)
	}
	// the client's first id: atomic.AddUint32(&nextStreamID(=1), 1) = 2, then 3, ...
	for i := range ids {
		ids[i] = 2 + i
	}
	sz := func() int {
		c := caps[r.Intn(len(caps))]
		return []int{1, c - 1, c, c + 1, 2*c + 1, 1 + r.Intn(c+3)}[r.Intn(6)]
	}
	n := 6 + r.Intn(40)
	motif := r.Intn(4) == 0
	for i := 0; i < n; i++ {
		id := ids[r.Intn(len(ids))]
		x := []string{"a", "a", "b"}[r.Intn(3)]
		if motif && r.Intn(n) < 3 {
			// a stream that changes transport: share memory, then (memory exhausted) the connection, then memory is
			// available again - while an earlier queue notification is still undelivered. Order and close-after-data
			// must survive the switch.
			motif = false
			_, nums := c06Classes(cls)
			if r.Intn(3) > 0 {
				ops = append(ops, fmt.Sprintf("wb %s %d %s", x, id, c06RandBytes(r, 1+r.Intn(caps[0]), &seq)), fmt.Sprintf("flush %s %d", x, id))
			}
			for ci := range caps {
				ops = append(ops, fmt.Sprintf("take %d %d", ci, nums[ci]))
			}
			ops = append(ops, fmt.Sprintf("wb %s %d %s", x, id, c06RandBytes(r, sz(), &seq)), fmt.Sprintf("flush %s %d", x, id))
			for ci := range caps {
				ops = append(ops, fmt.Sprintf("give %d %d", ci, nums[ci]))
			}
			ops = append(ops, fmt.Sprintf("wb %s %d %s", x, id, c06RandBytes(r, 1+r.Intn(caps[0]), &seq)), fmt.Sprintf("flush %s %d", x, id))
			if r.Intn(2) == 0 {
				ops = append(ops, fmt.Sprintf("close %s %d", x, id))
			}
			for k := 1 + r.Intn(4); k > 0; k-- {
				ops = append(ops, "deliver "+peerName(x), fmt.Sprintf("rb %s %d %d", peerName(x), id, 1+r.Intn(2*caps[0])))
			}
			continue
		}
		switch k := r.Intn(24); {
		case k < 5:
			ops = append(ops, fmt.Sprintf("wb %s %d %s", x, id, c06RandBytes(r, sz(), &seq)))
		case k < 9:
			if r.Intn(6) == 0 {
				// fill the queue first so that this Flush meets a full queue while the peer drains it
				for q := 0; q < qcap; q++ {
					ops = append(ops, fmt.Sprintf("wb %s %d %s", x, id, c06RandBytes(r, 1+r.Intn(3), &seq)), fmt.Sprintf("flush %s %d", x, id))
				}
				ops = append(ops, fmt.Sprintf("wb %s %d %s", x, id, c06RandBytes(r, 1+r.Intn(3), &seq)), fmt.Sprintf("flushd %s %d", x, id))
			} else {
				ops = append(ops, fmt.Sprintf("flush %s %d", x, id))
			}
		case k < 13:
			ops = append(ops, "deliver "+[]string{"a", "b", "b"}[r.Intn(3)])
		case k < 17:
			opn := []string{"rb", "rb", "pk", "dc", "rd"}[r.Intn(5)]
			ops = append(ops, fmt.Sprintf("%s %s %d %d", opn, peerName(x), id, 1+r.Intn(2*caps[0])))
		case k < 18:
			ops = append(ops, fmt.Sprintf("%s %s %d", []string{"rel", "rel", "reuse"}[r.Intn(3)], peerName(x), id))
		case k < 20:
			ops = append(ops, fmt.Sprintf("close %s %d", x, id))
		case k < 22:
			ops = append(ops, fmt.Sprintf("take %d %d", r.Intn(len(caps)), 1+r.Intn(5)))
		case k < 23:
			ops = append(ops, fmt.Sprintf("give %d %d", r.Intn(len(caps)), 1+r.Intn(5)))
		default:
			ops = append(ops, fmt.Sprintf("rsv %s %d %s", x, id, c06RandBytes(r, 1+r.Intn(caps[0]), &seq)))
		}
	}
	return ops
}
