//go:build verif

package shmipc

// C04: the IO queue under a controlled scheduler, at single-access granularity.
// Line protocol (shared with ShmVerif/Drv/C04.lean):
//   init <cap> <base>          queue of capacity cap, both cursors start at base
//   prod a.b.c a.b.c ...        a producer thread that puts these elements in order
//   cons <n>                    the consumer thread performs n pops
//   step <t|c>                  grant one step to producer t / the consumer
//   finish                      deterministic completion: lock holder first, then producers in order, consumer last

import (
	"fmt"
	"math/rand"
	"os"
	"strings"
	"sync/atomic"
)

func init() {
	vProps["C04"] = &vProp{model: "c04", quickN: 400, thoroughN: 6000, gen: c04Gen, exec: c04Exec}
}

func c04Label(site string, consumer bool) string {
	switch {
	case site == "lock" || site == "unlock" || site == "done" || site == "start":
		return site
	case strings.Contains(site, "LoadInt64(q.tail)"):
		return "ld_tail"
	case strings.Contains(site, "LoadInt64(q.head)"):
		return "ld_head"
	case strings.Contains(site, "AddInt64(q.tail"):
		return "add_tail"
	case strings.Contains(site, "AddInt64(q.head"):
		return "add_head"
	case strings.HasPrefix(site, "slot:"):
		if strings.Contains(site, "queueOffset+4") {
			return "slot1"
		}
		if strings.Contains(site, "queueOffset+8") {
			return "slot2"
		}
		return "slot0"
	}
	return "?" + site
}

type c04Elem struct{ a, b, c uint32 }

func c04Gen(r *rand.Rand, tier string, idx int) []string {
	if idx%100 == 37 {
		return []string{fmt.Sprintf("xqueue %d", r.Intn(6))}
	}
	cap := []int{0, 1, 1, 2, 2, 3, 4}[r.Intn(7)]
	base := 0
	if r.Intn(2) == 0 && cap > 0 {
		base = cap*r.Intn(5) + r.Intn(cap+1)
	}
	nprod := 1 + r.Intn(3)
	ops := []string{fmt.Sprintf("init %d %d", cap, base)}
	total := 0
	uniq := 1
	for p := 0; p < nprod; p++ {
		k := 1 + r.Intn(4)
		var es []string
		for i := 0; i < k; i++ {
			es = append(es, fmt.Sprintf("%d.%d.%d", uniq, 1000+uniq, 2000000+uniq))
			uniq++
		}
		total += k
		ops = append(ops, "prod "+strings.Join(es, " "))
	}
	pops := total + r.Intn(3)
	ops = append(ops, fmt.Sprintf("cons %d", pops))
	steps := r.Intn(total*12 + 10)
	// PCT-flavoured: a current favourite thread that changes at random points
	fav := r.Intn(nprod + 1)
	for i := 0; i < steps; i++ {
		if r.Intn(4) == 0 {
			fav = r.Intn(nprod + 1)
		}
		w := fav
		if r.Intn(5) == 0 {
			w = r.Intn(nprod + 1)
		}
		if w == nprod {
			ops = append(ops, "step c")
		} else {
			ops = append(ops, fmt.Sprintf("step %d", w))
		}
	}
	ops = append(ops, "finish")
	return ops
}

func c04ShowElem(e queueElement) string {
	return fmt.Sprintf("%d.%d.%d", e.seqID, e.offsetInShmBuf, e.status)
}

type c04Run struct {
	q        *queue
	cap      int
	prods    [][]queueElement
	pops     int
	sched    *vScheduler
	pth      []*vThread
	cth      *vThread
	started  bool
	holder   int // producer holding the mutex, -1 none
	pres     []string
	cres     []string
	popped   []queueElement
	putOK    [][]bool // per producer per element: returned ok?
	putDone  []int    // per producer: number of completed puts
	putStart [][]int  // step index at which put started / ended
	putEnd   [][]int
	maxOcc   [][]int64 // max occupancy seen during each put
	stepNo   int
	fail     string
	key      string
	tags     map[string]bool
}

func (c *c04Run) snap() string {
	var ring []string
	for i := 0; i < c.cap; i++ {
		off := i * queueElementLen
		ring = append(ring, fmt.Sprintf("%d.%d.%d",
			leU32(c.q.queueBytesOnMemory[off:]), leU32(c.q.queueBytesOnMemory[off+4:]), leU32(c.q.queueBytesOnMemory[off+8:])))
	}
	return fmt.Sprintf("h=%d t=%d ring=%s", *c.q.head, *c.q.tail, strings.Join(ring, ","))
}

func leU32(b []byte) uint32 {
	return uint32(b[0]) | uint32(b[1])<<8 | uint32(b[2])<<16 | uint32(b[3])<<24
}

func (c *c04Run) setFail(key, what string) {
	if c.fail == "" {
		c.fail, c.key = what, key
	}
}

func (c *c04Run) start() {
	if c.started {
		return
	}
	c.started = true
	c.sched = &vScheduler{}
	vS = c.sched
	c.holder = -1
	c.putOK = make([][]bool, len(c.prods))
	c.putDone = make([]int, len(c.prods))
	c.putStart = make([][]int, len(c.prods))
	c.putEnd = make([][]int, len(c.prods))
	c.maxOcc = make([][]int64, len(c.prods))
	for p := range c.prods {
		p := p
		c.putOK[p] = make([]bool, len(c.prods[p]))
		c.putStart[p] = make([]int, len(c.prods[p]))
		c.putEnd[p] = make([]int, len(c.prods[p]))
		c.maxOcc[p] = make([]int64, len(c.prods[p]))
		for i := range c.maxOcc[p] {
			c.maxOcc[p][i] = -1 << 40
		}
		th := c.sched.newThread(func() {
			for i, e := range c.prods[p] {
				c.putStart[p][i] = c.stepNo
				err := c.q.put(e)
				c.putEnd[p][i] = c.stepNo
				c.putOK[p][i] = err == nil
				c.putDone[p] = i + 1
				c.pres = append(c.pres, fmt.Sprintf("%d:%s", p, vErrClass(err)))
			}
		})
		c.pth = append(c.pth, th)
	}
	c.cth = c.sched.newThread(func() {
		for i := 0; i < c.pops; i++ {
			e, err := c.q.pop()
			if err != nil {
				c.cres = append(c.cres, vErrClass(err))
			} else {
				c.cres = append(c.cres, "got:"+c04ShowElem(e))
				c.popped = append(c.popped, e)
			}
		}
	})
	// prime: run every thread up to its first yield (no shared access happens)
	for _, t := range c.sched.threads {
		c.sched.step(t)
	}
}

// after every step: bounded occupancy, and bookkeeping for "full only when really full"
func (c *c04Run) afterStep() {
	occ := *c.q.tail - *c.q.head
	if occ < 0 || occ > int64(c.cap) {
		c.setFail("occupancy", fmt.Sprintf("after step %d: tail-head=%d outside [0,%d]", c.stepNo, occ, c.cap))
	}
	for p := range c.prods {
		i := c.putDone[p]
		if i < len(c.prods[p]) && occ > c.maxOcc[p][i] {
			c.maxOcc[p][i] = occ
		}
	}
}

func (c *c04Run) stepThread(th *vThread, prod int) string {
	if th.done {
		return "idle"
	}
	site := th.site
	// occupancy before the step counts for the op in progress too
	c.afterStep()
	c.stepNo++
	next := c.sched.step(th)
	if prod >= 0 {
		if site == "lock" && next != "lock" {
			c.holder = prod
		} else if site == "lock" {
			c.tags["lock-contended"] = true
		}
		if site == "unlock" {
			c.holder = -1
		}
	}
	if th.panicV != nil {
		c.setFail("panic", fmt.Sprintf("panic in thread: %v", th.panicV))
	}
	c.afterStep()
	return c04Label(site, prod < 0)
}

func (c *c04Run) finish() {
	for guard := 0; guard < 100000; guard++ {
		if c.holder >= 0 {
			c.stepThread(c.pth[c.holder], c.holder)
			continue
		}
		stepped := false
		for p, th := range c.pth {
			if !th.done {
				c.stepThread(th, p)
				stepped = true
				break
			}
		}
		if stepped {
			continue
		}
		if !c.cth.done {
			c.stepThread(c.cth, -1)
			continue
		}
		return
	}
	c.setFail("hang", "finish did not terminate")
}

func (c *c04Run) spec() {
	// S: every element returned is one that was successfully enqueued, exactly once, intact; per-producer order;
	// non-overlapping enqueues in order; reported full only if occupancy reached cap during the call;
	// at quiescence (consumer popped until empty after all producers finished) nothing is left behind.
	type key struct{ a, b, c uint32 }
	owner := map[key][2]int{}
	for p := range c.prods {
		for i, e := range c.prods[p] {
			owner[key{e.seqID, e.offsetInShmBuf, e.status}] = [2]int{p, i}
		}
	}
	seen := map[key]bool{}
	lastIdx := make([]int, len(c.prods))
	for i := range lastIdx {
		lastIdx[i] = -1
	}
	var order [][2]int
	for _, e := range c.popped {
		k := key{e.seqID, e.offsetInShmBuf, e.status}
		o, ok := owner[k]
		if !ok {
			c.setFail("torn-or-invented", fmt.Sprintf("consumer returned %s which no producer enqueued (torn/invented)", c04ShowElem(e)))
			return
		}
		if seen[k] {
			c.setFail("duplicate", fmt.Sprintf("element %s returned twice", c04ShowElem(e)))
			return
		}
		seen[k] = true
		if o[1] > c.putDone[o[0]] {
			c.setFail("not-enqueued", fmt.Sprintf("element %s returned before its put started", c04ShowElem(e)))
			return
		}
		if o[1] < len(c.putOK[o[0]]) && o[1] < c.putDone[o[0]] && !c.putOK[o[0]][o[1]] {
			c.setFail("returned-despite-full", fmt.Sprintf("element %s returned although its put reported full", c04ShowElem(e)))
			return
		}
		if o[1] <= lastIdx[o[0]] {
			c.setFail("producer-order", fmt.Sprintf("element %s returned out of its producer's order", c04ShowElem(e)))
			return
		}
		lastIdx[o[0]] = o[1]
		order = append(order, o)
	}
	// real-time order of non-overlapping successful puts
	for i := 0; i < len(order); i++ {
		for j := i + 1; j < len(order); j++ {
			a, b := order[i], order[j]
			// b came out after a; violation if b's put completed before a's put started
			if c.putEnd[b[0]][b[1]] < c.putStart[a[0]][a[1]] && b[1] < c.putDone[b[0]] {
				c.setFail("realtime-order", fmt.Sprintf("put %v completed before put %v started but came out later", b, a))
				return
			}
		}
	}
	for p := range c.prods {
		for i := 0; i < c.putDone[p]; i++ {
			if !c.putOK[p][i] {
				c.tags["full"] = true
				if c.maxOcc[p][i] < int64(c.cap) {
					c.setFail("spurious-full", fmt.Sprintf("put %d/%d reported full but occupancy never reached cap=%d (max %d)", p, i, c.cap, c.maxOcc[p][i]))
					return
				}
			}
		}
	}
	// quiescence
	allDone := c.cth.done
	for _, th := range c.pth {
		allDone = allDone && th.done
	}
	if allDone {
		nOK := 0
		for p := range c.prods {
			for i := range c.prods[p] {
				if c.putOK[p][i] {
					nOK++
				}
			}
		}
		if len(c.popped) != nOK {
			c.setFail("lost", fmt.Sprintf("%d elements enqueued ok, %d returned after draining the queue at quiescence", nOK, len(c.popped)))
		}
		if int(*c.q.tail-*c.q.head) != nOK-len(c.popped) {
			c.setFail("count", fmt.Sprintf("tail-head=%d but enqueued-ok %d minus returned %d", *c.q.tail-*c.q.head, nOK, len(c.popped)))
		}
	}
}

var c04Seq uint64

// xqueue <held>: a second creator on the path of a LIVE queue (another session with the same QueuePath, in this or another
// process): it must be refused; if it is let in, it re-initialises the ring under the first session's feet.
func c04SecondCreator(f []string) vResult {
	res := vResult{noModel: true, out: []string{"done"}, tags: []string{"second-queue-creator"}}
	held := vAtoi(f[1])
	if held < 0 || held > 8 {
		res.out = []string{"bad-op"}
		return res
	}
	path := fmt.Sprintf("/dev/shm/verif_c04_%d_%d_queue", os.Getpid(), atomic.AddUint64(&c04Seq, 1))
	defer os.Remove(path)
	qm, err := createQueueManager(path, 8)
	if err != nil {
		res.specFail, res.key = "createQueueManager: "+err.Error(), "setup"
		return res
	}
	defer qm.unmap()
	for i := 0; i < held; i++ {
		qm.sendQueue.put(queueElement{seqID: uint32(100 + i), offsetInShmBuf: uint32(i), status: 1})
	}
	qm2, err2 := createQueueManager(path, 8)
	if err2 == nil {
		defer qm2.unmap()
	}
	// S (C04): every element put is delivered exactly once, in order - whatever other sessions do with the same path
	for i := 0; i < held; i++ {
		e, err := qm.sendQueue.pop()
		if err != nil || e.seqID != uint32(100+i) || e.offsetInShmBuf != uint32(i) {
			res.specFail = fmt.Sprintf("%d elements were enqueued; a second createQueueManager on the same path returned err=%v; pop %d then gave (%+v, %v)", held, err2, i, e, err)
			res.key = "second-queue-creator-reinitialises-live-queue"
			return res
		}
	}
	if err2 == nil {
		res.specFail = "a second createQueueManager on the path of a live queue succeeded: both sessions now enqueue into and pop from one ring"
		res.key = "second-queue-creator-accepted"
	}
	return res
}

func c04Exec(ops []string) vResult {
	if len(ops) == 1 && strings.HasPrefix(ops[0], "xqueue ") {
		if f := vFields(ops[0]); len(f) == 2 {
			return c04SecondCreator(f)
		}
	}
	c := &c04Run{tags: map[string]bool{}, holder: -1}
	var out []string
	defer func() { vS = nil }()
	for _, op := range ops {
		f := vFields(op)
		if len(f) == 0 {
			out = append(out, "bad-op")
			continue
		}
		switch {
		case f[0] == "init" && len(f) == 3 && !c.started:
			c.cap = vAtoi(f[1])
			c.q = createQueue(uint32(c.cap))
			*c.q.head = int64(vAtoi(f[2]))
			*c.q.tail = int64(vAtoi(f[2]))
			if vAtoi(f[2]) > 0 {
				c.tags["base>0"] = true
			}
			out = append(out, "ok")
		case f[0] == "prod" && !c.started && c.q != nil:
			var es []queueElement
			for _, w := range f[1:] {
				var e queueElement
				fmt.Sscanf(strings.ReplaceAll(w, ".", " "), "%d %d %d", &e.seqID, &e.offsetInShmBuf, &e.status)
				es = append(es, e)
			}
			c.prods = append(c.prods, es)
			out = append(out, "ok")
		case f[0] == "cons" && len(f) == 2 && !c.started && c.q != nil:
			c.pops = vAtoi(f[1])
			out = append(out, "ok")
		case f[0] == "step" && len(f) == 2 && c.q != nil:
			c.start()
			var lab string
			if f[1] == "c" {
				lab = c.stepThread(c.cth, -1)
				if lab == "slot0" || lab == "slot1" || lab == "slot2" {
					if c.holder >= 0 {
						c.tags["consumer-reads-while-producer-in-critical-section"] = true
					}
				}
			} else {
				p := vAtoi(f[1])
				if p < 0 || p >= len(c.pth) {
					lab = "idle"
				} else {
					lab = c.stepThread(c.pth[p], p)
				}
			}
			out = append(out, lab+" "+c.snap())
		case f[0] == "finish" && c.q != nil:
			c.start()
			c.finish()
			out = append(out, fmt.Sprintf("pres=%s cres=%s %s", strings.Join(c.pres, ","), strings.Join(c.cres, ","), c.snap()))
		default:
			out = append(out, "bad-op")
		}
	}
	if c.started {
		// make sure no goroutine is left parked
		c.finish()
		// quiescence: drain whatever is left with direct (unscheduled) pops
		vS = nil
		for i := 0; i < 10000; i++ {
			e, err := c.q.pop()
			if err != nil {
				break
			}
			c.popped = append(c.popped, e)
		}
		c.spec()
		if *c.q.tail > int64(c.cap)+int64(0) && c.cap > 0 && (*c.q.tail)/int64(c.cap) != (*c.q.head)/int64(c.cap) {
			c.tags["wrapped"] = true
		}
	}
	var tags []string
	for t := range c.tags {
		tags = append(tags, t)
	}
	return vResult{out: out, specFail: c.fail, key: c.key, tags: tags}
}
