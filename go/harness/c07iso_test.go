//go:build verif

package shmipc

import (
	"fmt"
	"io"
	"net"
	"os"
	"sync"
	"sync/atomic"
	"time"

	syscall "golang.org/x/sys/unix"
)

// fbiso <workers> <rounds>: stream isolation while messages switch transport under concurrency (a real pair, wall clock).
// One stream that nobody reads ties up the share memory; <workers> other streams spill their first message to the
// connection (sticky fall-back state); a few slices become free again; then the workers write <rounds> messages each AT THE
// SAME TIME - every message is assembled in whatever share-memory slices are free (plus heap memory) and travels on the
// connection. Every byte carries its stream's id: a reader must only ever see bytes of its own stream, in order.
var c07IsoSeq uint64

func c07IsoFill(sid uint32, size int) []byte {
	b := make([]byte, size)
	for i := range b {
		b[i] = byte(sid&0xf)<<4 | byte(i&0xf)
	}
	return b
}

func c07FallbackIsolation(f []string) vResult {
	res := vResult{noModel: true, out: []string{"done"}, tags: []string{"concurrent-fallback-writers"}}
	workersN, rounds := vAtoi(f[1]), vAtoi(f[2])
	if workersN < 2 || workersN > 12 || rounds < 1 || rounds > 400 {
		res.out = []string{"bad-op"}
		return res
	}
	internalLogger = &logger{"", io.Discard, 3}
	const sliceCap = 64*1024 - bufferHeaderSize
	const msgSize = 4 * sliceCap
	const freeSlices = 6
	prefix := fmt.Sprintf("/dev/shm/verif_c07i_%d_%d", os.Getpid(), atomic.AddUint64(&c07IsoSeq, 1))
	fds, err := syscall.Socketpair(syscall.AF_UNIX, syscall.SOCK_STREAM|syscall.SOCK_CLOEXEC, 0)
	if err != nil {
		res.specFail, res.key = err.Error(), "setup"
		return res
	}
	f0, f1 := os.NewFile(uintptr(fds[0]), "a"), os.NewFile(uintptr(fds[1]), "b")
	ca, _ := net.FileConn(f0)
	cb, _ := net.FileConn(f1)
	f0.Close()
	f1.Close()
	mk := func(p string) *Config {
		cfg := c12Config(p, MemMapTypeMemFd)
		cfg.ShareMemoryBufferCap = 4 << 20
		cfg.BufferSliceSizes = []*SizePercentPair{{Size: sliceCap, Percent: 100}}
		cfg.QueueCap = 8192
		return cfg
	}
	chC := c12Start(mk(prefix), ca, true)
	chS := c12Start(mk(prefix+"_srv"), cb, false)
	rc, okc := c12Wait(chC, 20*time.Second)
	rs, oks := c12Wait(chS, 20*time.Second)
	defer func() {
		c12CloseSession(rc.sess)
		c12CloseSession(rs.sess)
	}()
	if !okc || !oks || rc.err != nil || rs.err != nil {
		res.specFail, res.key = fmt.Sprintf("establishment failed: %v / %v", rc.err, rs.err), "setup"
		return res
	}
	client, server := rc.sess, rs.sess
	setup := func(what string, err error) vResult {
		res.specFail, res.key = what+": "+err.Error(), "setup"
		return res
	}
	// all streams are opened first: the first fall-back marks the session unhealthy for new streams
	hoard, err := client.OpenStream()
	if err != nil {
		return setup("OpenStream", err)
	}
	workers := make([]*Stream, workersN)
	for i := range workers {
		if workers[i], err = client.OpenStream(); err != nil {
			return setup("OpenStream", err)
		}
	}
	var (
		mu           sync.Mutex
		reports      []string
		readersWg    sync.WaitGroup
		hoardRelease = make(chan int, 1)
		hoardDone    = make(chan struct{})
	)
	report := func(s string) {
		mu.Lock()
		if len(reports) < 4 {
			reports = append(reports, s)
		}
		mu.Unlock()
	}
	readersWg.Add(workersN)
	go func() {
		for {
			s, err := server.AcceptStream()
			if err != nil {
				return
			}
			if s.StreamID() == hoard.StreamID() {
				go func() {
					n := <-hoardRelease
					for i := 0; i < n; i++ {
						s.SetReadDeadline(time.Now().Add(10 * time.Second))
						if _, err := s.BufferReader().ReadBytes(sliceCap); err != nil {
							break
						}
						s.BufferReader().ReleasePreviousRead()
					}
					close(hoardDone)
				}()
				continue
			}
			go func() {
				defer readersWg.Done()
				sid := s.StreamID()
				for m := 0; m < rounds+1; m++ {
					s.SetReadDeadline(time.Now().Add(60 * time.Second))
					data, err := s.BufferReader().ReadBytes(msgSize)
					if err != nil {
						report(fmt.Sprintf("stream %d message %d: read error %v", sid, m, err))
						return
					}
					for i, b := range data {
						if want := byte(sid&0xf)<<4 | byte(i&0xf); b != want {
							report(fmt.Sprintf("stream %d message %d: byte %d is 0x%02x (the tag of stream %d), the stream's own byte there is 0x%02x", sid, m, i, b, b>>4, want))
							break
						}
					}
					s.BufferReader().ReleasePreviousRead()
				}
			}()
		}
	}()
	// 1. the unread stream ties up the whole share memory
	list := client.bufferManager.lists[0]
	hoardMsg := c07IsoFill(hoard.StreamID(), sliceCap)
	for list.remain() > 0 {
		if _, err := hoard.BufferWriter().WriteBytes(hoardMsg); err != nil {
			return setup("hoard write", err)
		}
		if err := hoard.Flush(false); err != nil {
			return setup("hoard flush", err)
		}
	}
	// 2. every worker spills its first message: sticky fall-back state
	for _, w := range workers {
		if _, err := w.BufferWriter().WriteBytes(c07IsoFill(w.StreamID(), msgSize)); err != nil {
			return setup("worker write", err)
		}
		if err := w.Flush(false); err != nil {
			return setup("worker flush", err)
		}
	}
	// 3. a few slices become free again
	hoardRelease <- freeSlices + 1
	select {
	case <-hoardDone:
	case <-time.After(15 * time.Second):
	}
	for t0 := time.Now(); list.remain() < freeSlices-1 && time.Since(t0) < 5*time.Second; {
		time.Sleep(time.Millisecond)
	}
	// 4. the workers write concurrently
	var writersWg sync.WaitGroup
	for _, w := range workers {
		w := w
		writersWg.Add(1)
		go func() {
			defer writersWg.Done()
			msg := c07IsoFill(w.StreamID(), msgSize)
			for r := 0; r < rounds; r++ {
				if _, err := w.BufferWriter().WriteBytes(msg); err != nil {
					report(fmt.Sprintf("stream %d WriteBytes: %v", w.StreamID(), err))
					return
				}
				if err := w.Flush(false); err != nil {
					report(fmt.Sprintf("stream %d Flush: %v", w.StreamID(), err))
					return
				}
			}
		}()
	}
	writersWg.Wait()
	done := make(chan struct{})
	go func() { readersWg.Wait(); close(done) }()
	select {
	case <-done:
	case <-time.After(90 * time.Second):
		report("readers did not receive every message within 90 s")
	}
	mu.Lock()
	defer mu.Unlock()
	if len(reports) > 0 {
		// S (C07): a reader only ever receives bytes written to its own stream, in the order they were flushed
		res.specFail, res.key = fmt.Sprintf("%d workers in fall-back state writing %d messages each at the same time with %d share-memory slices free: %s", workersN, rounds, freeSlices, reports[0]), "foreign-bytes"
	}
	return res
}
