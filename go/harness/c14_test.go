//go:build verif

package shmipc

// C14: session shutdown and the process-wide buffer-manager table.
// (i)  lock-step with ShmVerif/Model/Lifecycle.lean on bare in-package sessions that hold REAL buffer managers from the
//      global table (real /dev/shm files, real mappings, real reference counts) and real queue mappings; the clean-up that
//      Session.Close posts to the event loop is captured and run as a separate step; OpenStream runs as a scheduler thread
//      so that a Close can fall between its checks and its insertion into the stream table.
//        new <p> | close <k> | cleanup <k> | opencheck <k> | openinsert <k>
// (ii) scenarios on real session pairs over a socketpair (no model, spec monitors only):
//        e2e <file|memfd> <streams> <killpoint> <[cb]peerdeath|[cb]closeclient|[cb]closeserver>

import (
	"runtime/debug"
	"fmt"
	"io"
	"math/rand"
	"net"
	"os"
	"runtime"
	"strings"
	"sync"
	"sync/atomic"
	"time"

	syscall "golang.org/x/sys/unix"
)

func init() {
	vProps["C14"] = &vProp{model: "c14", quickN: 400, thoroughN: 6000, gen: c14Gen, exec: c14Exec}
}

var c14Seq uint64

type c14Sess struct {
	s     *Session
	conn  *vStubConn
	disp  *vStubDispatcher
	cb    *vListenCB
	th    *vThread // OpenStream in flight
	res   string
	path  int
}

type c14Run struct {
	prefix string
	sess   []*c14Sess
	sched  *vScheduler
	fail   string
	key    string
	tags   map[string]bool
}

func (c *c14Run) setFail(key, what string) {
	if c.fail == "" {
		c.fail, c.key = what, key
	}
}

func c14Filter(site string) bool {
	return strings.HasPrefix(site, "getSessionShutdown:") || strings.HasPrefix(site, "IsHealthy:")
}

func (c *c14Run) bufPath(p int) string { return fmt.Sprintf("%s_p%d_buffer", c.prefix, p) }

func (c *c14Run) refs(p int) int {
	bufferManagers.Lock()
	defer bufferManagers.Unlock()
	if bm, ok := bufferManagers.bms[c.bufPath(p)]; ok {
		return int(atomic.LoadInt32(&bm.refCount))
	}
	return 0
}

func (c *c14Run) snap() string {
	var ss []string
	for _, x := range c.sess {
		b := func(v bool) int {
			if v {
				return 1
			}
			return 0
		}
		x.disp.mu.Lock()
		posted := len(x.disp.posts) > 0
		x.disp.mu.Unlock()
		isNil, n := x.s.streams == nil, len(x.s.streams) // (no lock: a panic inside OpenStream leaves streamLock held)
		ss = append(ss, fmt.Sprintf("%d:%d:%d:%d:%d:%d:%d:%d", b(x.s.IsClosed()), b(posted), b(isNil), n, b(!x.conn.closed), b(x.s.queueManager != nil), x.cb.shutdowns, b(x.th != nil && !x.th.done)))
	}
	return fmt.Sprintf("sess=%s refs=%d,%d", strings.Join(ss, ";"), c.refs(0), c.refs(1))
}

func (c *c14Run) newSess(p int) error {
	cfg := c12Config(c.prefix, MemMapTypeDevShmFile)
	bm, err := getGlobalBufferManager(c.bufPath(p), cfg.ShareMemoryBufferCap, c.refs(p) == 0, cfg.BufferSliceSizes)
	if err != nil {
		return err
	}
	qm, err := createQueueManager(fmt.Sprintf("%s_q%d", c.prefix, len(c.sess)), 16)
	if err != nil {
		addGlobalBufferManagerRefCount(bm.path, -1)
		return err
	}
	x := &c14Sess{conn: &vStubConn{}, disp: &vStubDispatcher{}, cb: &vListenCB{}, path: p}
	x.s = vBareSession(true, qm, bm, x.conn)
	x.s.dispatcher = x.disp
	x.s.config.listenCallback = x.cb
	c.sess = append(c.sess, x)
	return nil
}

func (c *c14Run) lockstep(f []string) string {
	k := -1
	if len(f) == 2 {
		k = vAtoi(f[1])
	}
	get := func() *c14Sess {
		if k >= 0 && k < len(c.sess) {
			return c.sess[k]
		}
		return nil
	}
	res := ""
	switch f[0] {
	case "new":
		if k < 0 || k > 1 || len(c.sess) >= 6 {
			return "bad-op"
		}
		if err := c.newSess(k); err != nil {
			return "bad-op"
		}
	case "close":
		if x := get(); x != nil {
			if x.s.IsClosed() {
				c.tags["close-twice"] = true
			}
			if err := x.s.Close(); err != nil {
				c.setFail("close-error", "Session.Close returned "+err.Error())
			}
		}
	case "cleanup":
		if x := get(); x != nil {
			x.disp.mu.Lock()
			posts := x.disp.posts
			x.disp.posts = nil
			x.disp.mu.Unlock()
			if len(posts) > 1 {
				// S (C14): the clean-up is posted once, however often Close is called
				c.setFail("cleanup-posted-twice", fmt.Sprintf("session %d: %d clean-ups were posted", k, len(posts)))
			}
			for _, p := range posts {
				p()
			}
			if len(posts) > 0 && c.refs(x.path) == 0 {
				c.tags["last-reference-unmaps"] = true
			}
		}
	case "opencheck":
		x := get()
		if x == nil || (x.th != nil && !x.th.done) {
			res = "noop "
			break
		}
		x.res = ""
		x.th = c.sched.newThread(func() {
			st, err := x.s.OpenStream()
			if err != nil || st == nil {
				x.res = "closed"
			} else {
				x.res = "ok"
			}
		})
		c.sched.step(x.th) // to the load of `shutdown`
		c.sched.step(x.th) // the check itself; parks at IsHealthy unless it returned
		if x.th.done {
			res = x.res + " "
		} else {
			res = "ok "
		}
	case "openinsert":
		x := get()
		if x == nil || x.th == nil || x.th.done {
			res = "noop "
			break
		}
		if x.s.IsClosed() {
			c.tags["close-between-check-and-insert"] = true
		}
		for i := 0; i < 10 && !x.th.done; i++ {
			c.sched.step(x.th)
		}
		if x.th.panicV != nil {
			// S (C14): nothing panics
			c.setFail("openstream-panics-after-close", fmt.Sprintf("OpenStream racing Session.Close panicked: %v", x.th.panicV))
			res = "panic "
		} else {
			res = x.res + " "
		}
	default:
		return "bad-op"
	}
	return res + c.snap()
}

// ---- (ii) real pairs ----

type c14CB struct {
	mu      sync.Mutex
	streams []*Stream
	ch      chan *Stream
	cbMode  bool // streams are switched to callback mode; OnData blocks in a read for more than was sent
	cbs     []*c14SCB
}

// c14SCB: stream callbacks whose OnData waits (no deadline) for more bytes than the peer ever sends
type c14SCB struct {
	st            *Stream
	entered       chan struct{}
	readDone      chan error
	local, remote int32
}

func (b *c14SCB) OnData(reader BufferReader) {
	select {
	case b.entered <- struct{}{}:
	default:
	}
	_, err := reader.ReadBytes(1 << 10)
	select {
	case b.readDone <- err:
	default:
	}
}
func (b *c14SCB) OnLocalClose()  { atomic.AddInt32(&b.local, 1) }
func (b *c14SCB) OnRemoteClose() { atomic.AddInt32(&b.remote, 1) }

func (l *c14CB) OnNewStream(s *Stream) {
	l.mu.Lock()
	l.streams = append(l.streams, s)
	if l.cbMode {
		b := &c14SCB{st: s, entered: make(chan struct{}, 1), readDone: make(chan error, 1)}
		l.cbs = append(l.cbs, b)
		s.SetCallbacks(b)
	}
	l.mu.Unlock()
	select {
	case l.ch <- s:
	default:
	}
}
func (l *c14CB) OnShutdown(reason string) {}

func c14Pair(prefix string, mt MemMapType) (*Session, *Session, *c14CB, error) {
	return c14PairCB(prefix, mt, false)
}

func c14PairCB(prefix string, mt MemMapType, cbMode bool) (*Session, *Session, *c14CB, error) {
	fds, err := syscall.Socketpair(syscall.AF_UNIX, syscall.SOCK_STREAM|syscall.SOCK_CLOEXEC, 0)
	if err != nil {
		return nil, nil, nil, err
	}
	f0, f1 := os.NewFile(uintptr(fds[0]), "a"), os.NewFile(uintptr(fds[1]), "b")
	ca, _ := net.FileConn(f0)
	cb, _ := net.FileConn(f1)
	f0.Close()
	f1.Close()
	lcb := &c14CB{ch: make(chan *Stream, 64), cbMode: cbMode}
	scfg := c12Config(prefix+"_srv", mt)
	scfg.listenCallback = lcb
	scfg.Monitor = c14Monitor{} // the session's own monitor loop samples GetMetrics, the last time at shutdown
	ccfg := c12Config(prefix, mt)
	ccfg.Monitor = c14Monitor{}
	chC := c12Start(ccfg, ca, true)
	chS := c12Start(scfg, cb, false)
	rc, okc := c12Wait(chC, 8*time.Second)
	rs, oks := c12Wait(chS, 8*time.Second)
	if !okc || !oks || rc.err != nil || rs.err != nil {
		c12CloseSession(rc.sess)
		c12CloseSession(rs.sess)
		return nil, nil, nil, fmt.Errorf("establishment failed: %v / %v", rc.err, rs.err)
	}
	return rc.sess, rs.sess, lcb, nil
}

type c14Monitor struct{}

func (c14Monitor) OnEmitSessionMetrics(PerformanceMetrics, StabilityMetrics, ShareMemoryMetrics, *Session) {}
func (c14Monitor) Flush() error                                                                            { return nil }

type c14Call struct {
	name string
	done chan error
	pan  interface{}
}

func c14Go(name string, f func() error) *c14Call {
	c := &c14Call{name: name, done: make(chan error, 1)}
	go func() {
		defer func() {
			if r := recover(); r != nil {
				c.pan = r
				c.done <- fmt.Errorf("panic: %v", r)
			}
		}()
		c.done <- f()
	}()
	return c
}

// early <eof|junk>: the connection breaks at the moment the handshake completes - after newSession has registered the
// connection with the event loop and before it returns (a file-mapping client finishes its handshake without a reply)
func (c *c14Run) early(f []string) string {
	kind := f[1]
	if kind != "eof" && kind != "junk" {
		return "bad-op"
	}
	n := atomic.AddUint64(&c14Seq, 1)
	prefix := fmt.Sprintf("/dev/shm/verif_c14y_%d_%d", os.Getpid(), n)
	conn, raw, err := c12SocketPair()
	if err != nil {
		return "bad-op"
	}
	defer syscall.Close(raw)
	cfg := c12Config(prefix, MemMapTypeDevShmFile)
	reached := false
	vRegisteredHook = func(s *Session) {
		reached = true
		if kind == "eof" {
			syscall.Shutdown(raw, syscall.SHUT_RDWR)
		} else {
			h := header(make([]byte, headerSize))
			h.encode(headerSize, 3, eventType(99))
			blockWriteFull(raw, h)
		}
		// the event loop sees it, closes the session and runs its clean-up
		for t0 := time.Now(); time.Since(t0) < 3*time.Second; {
			s.shutdownLock.Lock()
			gone := s.queueManager == nil
			s.shutdownLock.Unlock()
			if gone {
				break
			}
			time.Sleep(500 * time.Microsecond)
		}
	}
	defer func() { vRegisteredHook = nil }()
	call := c14Go("newSession", func() error {
		s, err := newSession(cfg, conn, true)
		if s != nil {
			c12CloseSession(s)
		}
		return err
	})
	select {
	case err = <-call.done:
	case <-time.After(8 * time.Second):
		c.setFail("newsession-hangs-on-early-break", "newSession did not return within 8s of a connection that broke as the handshake completed")
		return "hang"
	}
	vRegisteredHook = nil
	c.tags["early-"+kind] = true
	if !reached {
		c.tags["early-not-reached"] = true
	}
	if call.pan != nil {
		// S (C14): if the connection breaks at any moment nothing panics
		c.setFail("newsession-panics-on-early-break", fmt.Sprintf("the connection broke (%s) right after newSession registered it with the event loop: the session was closed by the event loop and newSession panicked: %v", map[string]string{"eof": "peer closed", "junk": "peer sent an invalid event"}[kind], call.pan))
		return "panic"
	}
	for t0 := time.Now(); time.Since(t0) < 3*time.Second && c12CountFiles(prefix) != 0; {
		time.Sleep(time.Millisecond)
	}
	if k := c12CountFiles(prefix); k != 0 {
		c.setFail("close-leaves-resources", fmt.Sprintf("the session that broke as its handshake completed is closed, %d file(s) with its prefix remain in /dev/shm", k))
	}
	_ = err // newSession may return the closed session or an error: both are fine
	return "returned"
}

// hold <peerdeath|selfclose>: a callback-mode stream is closed by the application while its session is healthy; its
// OnLocalClose is still running when the session dies (the peer goes away, or the application closes the session on another
// goroutine) and the session's clean-up has run; then the callback returns: Stream.Close must come back without a panic
type c14HoldCB struct {
	entered chan struct{}
	gate    chan struct{}
}

func (b *c14HoldCB) OnData(r BufferReader) {
	if n := r.Len(); n > 0 {
		r.ReadBytes(n)
		r.ReleasePreviousRead()
	}
}
func (b *c14HoldCB) OnLocalClose() {
	select {
	case b.entered <- struct{}{}:
	default:
	}
	<-b.gate
}
func (b *c14HoldCB) OnRemoteClose() {}

type c14HoldLCB struct {
	cb *c14HoldCB
	ch chan *Stream
}

func (l *c14HoldLCB) OnNewStream(s *Stream) {
	s.SetCallbacks(l.cb)
	select {
	case l.ch <- s:
	default:
	}
}
func (l *c14HoldLCB) OnShutdown(reason string) {}

func (c *c14Run) hold(f []string) string {
	mode := f[1]
	if mode != "peerdeath" && mode != "selfclose" {
		return "bad-op"
	}
	n := atomic.AddUint64(&c14Seq, 1)
	prefix := fmt.Sprintf("/dev/shm/verif_c14h_%d_%d", os.Getpid(), n)
	fds, err := syscall.Socketpair(syscall.AF_UNIX, syscall.SOCK_STREAM|syscall.SOCK_CLOEXEC, 0)
	if err != nil {
		return "bad-op"
	}
	f0, f1 := os.NewFile(uintptr(fds[0]), "a"), os.NewFile(uintptr(fds[1]), "b")
	ca, _ := net.FileConn(f0)
	cb, _ := net.FileConn(f1)
	f0.Close()
	f1.Close()
	hcb := &c14HoldCB{entered: make(chan struct{}, 1), gate: make(chan struct{})}
	lcb := &c14HoldLCB{cb: hcb, ch: make(chan *Stream, 4)}
	scfg := c12Config(prefix+"_srv", MemMapTypeMemFd)
	scfg.listenCallback = lcb
	chC := c12Start(c12Config(prefix, MemMapTypeMemFd), ca, true)
	chS := c12Start(scfg, cb, false)
	rc, okc := c12Wait(chC, 20*time.Second)
	rs, oks := c12Wait(chS, 20*time.Second)
	released := false
	release := func() {
		if !released {
			released = true
			close(hcb.gate)
		}
	}
	defer func() {
		release()
		c12CloseSession(rc.sess)
		c12CloseSession(rs.sess)
	}()
	if !okc || !oks || rc.err != nil || rs.err != nil {
		c.setFail("e2e-setup", fmt.Sprintf("establishment failed: %v / %v", rc.err, rs.err))
		return "setup-failed"
	}
	cli, srv := rc.sess, rs.sess
	st, err := cli.OpenStream()
	if err != nil {
		c.setFail("e2e-setup", "OpenStream: "+err.Error())
		return "setup-failed"
	}
	st.BufferWriter().WriteString("hello")
	st.Flush(false)
	var ss *Stream
	select {
	case ss = <-lcb.ch:
	case <-time.After(10 * time.Second):
		c.setFail("e2e-setup", "the server never saw the stream")
		return "setup-failed"
	}
	call := c14Go("Stream.Close", func() error { return ss.Close() })
	select {
	case <-hcb.entered:
	case <-time.After(10 * time.Second):
		c.setFail("e2e-setup", "OnLocalClose was not called for a Close on a healthy session")
		return "setup-failed"
	}
	// the session dies while the callback runs
	if mode == "peerdeath" {
		syscall.Shutdown(cli.connFd, syscall.SHUT_RDWR)
	} else {
		go srv.Close()
	}
	for t0 := time.Now(); time.Since(t0) < 8*time.Second; {
		srv.shutdownLock.Lock()
		gone := srv.queueManager == nil
		srv.shutdownLock.Unlock()
		if gone {
			break
		}
		time.Sleep(time.Millisecond)
	}
	c.tags["session-dies-during-close-callback-"+mode] = true
	release()
	select {
	case <-call.done:
	case <-time.After(8 * time.Second):
		c.setFail("close-hangs-after-session-died-in-callback", "Stream.Close did not return within 8 s of its close callback returning on a session that died meanwhile")
		return "hang"
	}
	if call.pan != nil {
		// S (C14): if the session breaks at any moment nothing panics; Session.Close is safe concurrently with traffic
		c.setFail("stream-close-panics-when-session-died-in-callback", fmt.Sprintf("the session died (%s) while the stream's OnLocalClose was running; when the callback returned Stream.Close panicked: %v", mode, call.pan))
		return "panic"
	}
	return "returned"
}

func (c *c14Run) e2e(f []string) string {
	mt := MemMapTypeDevShmFile
	if f[1] == "memfd" {
		mt = MemMapTypeMemFd
	}
	nst, kill, mode := vAtoi(f[2]), vAtoi(f[3]), f[4]
	if nst < 1 || nst > 4 {
		return "bad-op"
	}
	// cb<mode>: the server's streams are in callback mode and every OnData is blocked in a read when the event comes
	cbMode := strings.HasPrefix(mode, "cb")
	if cbMode {
		mode = mode[2:]
		if kill < nst {
			kill = nst
		}
		c.tags["callback-blocked-in-read"] = true
	}
	n := atomic.AddUint64(&c14Seq, 1)
	prefix := fmt.Sprintf("/dev/shm/verif_c14e_%d_%d", os.Getpid(), n)
	runtime.GC()
	fd0, maps0 := c12CountFds(), c12CountMaps(prefix)
	cli, srv, lcb, err := c14PairCB(prefix, mt, cbMode)
	if err != nil {
		c.setFail("e2e-setup", err.Error())
		return "setup-failed"
	}
	// workload: the client opens streams and sends messages; the server reads them
	var streams []*Stream
	for i := 0; i < nst; i++ {
		st, err := cli.OpenStream()
		if err != nil {
			c.setFail("e2e-setup", "OpenStream: "+err.Error())
			break
		}
		streams = append(streams, st)
	}
	sent := 0
	var srvStreams []*Stream
	for sent < kill && len(streams) > 0 {
		st := streams[sent%len(streams)]
		st.BufferWriter().WriteString(fmt.Sprintf("message-%d", sent))
		if err := st.Flush(false); err != nil {
			break
		}
		sent++
	}
	// let the server see the streams that carried data
	deadline := time.Now().Add(300 * time.Millisecond)
	want := nst
	if sent < nst {
		want = sent
	}
	for time.Now().Before(deadline) {
		lcb.mu.Lock()
		srvStreams = append([]*Stream{}, lcb.streams...)
		lcb.mu.Unlock()
		if len(srvStreams) >= want {
			break
		}
		time.Sleep(time.Millisecond)
	}
	// pending calls: a reader blocked on every client stream (no deadline), one on a server stream
	var pend []*c14Call
	for i, st := range streams {
		st := st
		pend = append(pend, c14Go(fmt.Sprintf("client stream %d ReadBytes", i), func() error {
			_, err := st.BufferReader().ReadBytes(1 << 10)
			return err
		}))
	}
	time.Sleep(5 * time.Millisecond)
	var cbs []*c14SCB
	if cbMode {
		lcb.mu.Lock()
		cbs = append(cbs, lcb.cbs...)
		lcb.mu.Unlock()
		for _, b := range cbs {
			select {
			case <-b.entered:
			case <-time.After(6 * time.Second):
				c.setFail("e2e-setup", "OnData was not called for a stream that received data")
			}
		}
		time.Sleep(5 * time.Millisecond)
	}
	// the event
	t0 := time.Now()
	survivor := cli
	switch mode {
	case "peerdeath":
		// the server process dies: the kernel closes its end of the connection; nothing of its Close runs
		if cbMode {
			// (callback variant: the client dies, the server with its blocked callbacks survives)
			syscall.Shutdown(cli.connFd, syscall.SHUT_RDWR)
			survivor = srv
		} else {
			syscall.Shutdown(srv.connFd, syscall.SHUT_RDWR)
		}
		c.tags["peer-death"] = true
	case "closeclient":
		cli.Close()
		survivor = srv
		c.tags["close-client"] = true
	case "closeserver":
		srv.Close()
		c.tags["close-server"] = true
	default:
		return "bad-op"
	}
	// S (C14): the surviving session becomes closed
	okClosed := false
	for t1 := time.Now(); time.Since(t1) < 6*time.Second; {
		if survivor.IsClosed() {
			okClosed = true
			break
		}
		time.Sleep(time.Millisecond)
	}
	if !okClosed {
		c.setFail("survivor-stays-open", fmt.Sprintf("%s: 6 s after the event the other session is still not closed", mode))
	}
	// S (C14): pending calls fail, nothing hangs, nothing panics
	for _, p := range pend {
		select {
		case err := <-p.done:
			if p.pan != nil {
				c.setFail("call-panics", fmt.Sprintf("%s: %s panicked: %v", mode, p.name, p.pan))
			} else if err == nil {
				c.setFail("pending-call-succeeds", fmt.Sprintf("%s: %s returned nil although no data could arrive", mode, p.name))
			}
		case <-time.After(6 * time.Second):
			c.setFail("pending-call-hangs", fmt.Sprintf("%s: %s is still blocked %v after the event", mode, p.name, time.Since(t0)))
		}
	}
	if cbMode {
		// S (C14): a read pending inside a data callback fails too, the stream gets its close callback, and the event
		// loop (shared by every session of the process) is not held up by it
		for i, b := range cbs {
			select {
			case err := <-b.readDone:
				if err == nil {
					c.setFail("pending-call-succeeds", fmt.Sprintf("%s: the read inside OnData of server stream %d returned nil although no data could arrive", mode, i))
				}
			case <-time.After(6 * time.Second):
				c.setFail("callback-read-hangs", fmt.Sprintf("%s: the read pending inside OnData of server stream %d is still blocked %v after the session died", mode, i, time.Since(t0)))
				b.st.safeCloseNotify() // release it by hand: the process-wide event loop would stay stuck for every later case
			}
		}
		ran := make(chan struct{})
		srv.dispatcher.post(func() { close(ran) })
		select {
		case <-ran:
		case <-time.After(8 * time.Second):
			c.setFail("event-loop-stuck", fmt.Sprintf("%s: work posted to the event loop has not run 8 s after the session died", mode))
		}
		for i, b := range cbs {
			ok := c19WaitFor(6*time.Second, func() bool { return atomic.LoadInt32(&b.local)+atomic.LoadInt32(&b.remote) >= 1 })
			if !ok {
				c.setFail("no-close-callback", fmt.Sprintf("%s: server stream %d (callback mode) got no close callback within 6 s of the session's death", mode, i))
			}
		}
	}
	// S (C14): later calls fail with an error (no panic, no hang)
	for i, st := range streams {
		st := st
		call := c14Go(fmt.Sprintf("client stream %d write+flush after the event", i), func() error {
			st.BufferWriter().WriteString("late")
			return st.Flush(false)
		})
		select {
		case err := <-call.done:
			if call.pan != nil {
				c.setFail("call-panics", fmt.Sprintf("%s: %s panicked: %v", mode, call.name, call.pan))
			} else if err == nil && survivor == cli && okClosed {
				c.setFail("late-call-succeeds", fmt.Sprintf("%s: %s returned nil on a closed session", mode, call.name))
			}
		case <-time.After(6 * time.Second):
			c.setFail("late-call-hangs", fmt.Sprintf("%s: %s hangs", mode, call.name))
		}
	}
	if _, err := cli.OpenStream(); err == nil && cli.IsClosed() {
		c.setFail("late-call-succeeds", "OpenStream succeeded on a closed session")
	}
	metrics := func(when string) {
		// S (C14): nothing panics - reading the metrics of a dead session is a "later call" too (applications poll them)
		for name, sess := range map[string]*Session{"client": cli, "server": srv} {
			sess := sess
			call := c14Go(name+" GetMetrics "+when, func() error {
				debug.SetPanicOnFault(true)
				sess.GetMetrics()
				return nil
			})
			select {
			case <-call.done:
				if call.pan != nil {
					c.setFail("call-panics", fmt.Sprintf("%s: %s faulted: %v", mode, call.name, call.pan))
				}
			case <-time.After(6 * time.Second):
				c.setFail("late-call-hangs", fmt.Sprintf("%s: %s hangs", mode, call.name))
			}
		}
	}
	metrics("after the event")
	// Close is idempotent and concurrent-safe
	var wg sync.WaitGroup
	for i := 0; i < 4; i++ {
		wg.Add(2)
		go func() { defer wg.Done(); cli.Close() }()
		go func() { defer wg.Done(); srv.Close() }()
	}
	wg.Wait()
	c12CloseSession(cli)
	c12CloseSession(srv)
	// S (C14): once both ends are closed nothing the sessions created is left
	for t1 := time.Now(); time.Since(t1) < 6*time.Second; {
		runtime.GC()
		if c12CountFds() <= fd0 && c12CountMaps(prefix) <= maps0 && c12CountFiles(prefix) == 0 {
			break
		}
		time.Sleep(2 * time.Millisecond)
	}
	metrics("after both sessions are closed and cleaned up")
	if fd1, m1, fl := c12CountFds(), c12CountMaps(prefix), c12CountFiles(prefix); fd1 > fd0 || m1 > maps0 || fl > 0 {
		c.setFail("close-leaves-resources", fmt.Sprintf("%s after %d messages on %d streams: both sessions closed, yet %d descriptor(s) more than before, %d mapping(s) and %d file(s) of these sessions remain", mode, sent, nst, fd1-fd0, m1-maps0, fl))
	}
	_ = srvStreams
	return "done"
}

func c14Exec(ops []string) vResult {
	internalLogger = &logger{"", io.Discard, 3}
	n := atomic.AddUint64(&c14Seq, 1)
	c := &c14Run{tags: map[string]bool{}, prefix: fmt.Sprintf("/dev/shm/verif_c14_%d_%d", os.Getpid(), n)}
	if len(ops) > 0 && (strings.HasPrefix(ops[0], "e2e ") || strings.HasPrefix(ops[0], "early ") || strings.HasPrefix(ops[0], "hold ")) {
		c12WarmOnce.Do(func() {
			w := &c12Run{tags: map[string]bool{}}
			w.scenario([]string{"pair", "file"})
			w.scenario([]string{"pair", "memfd"})
		})
		var out []string
		for _, op := range ops {
			f := vFields(op)
			if len(f) == 5 && f[0] == "e2e" {
				out = append(out, c.e2e(f))
			} else if len(f) == 2 && f[0] == "early" {
				out = append(out, c.early(f))
			} else if len(f) == 2 && f[0] == "hold" {
				out = append(out, c.hold(f))
			} else {
				out = append(out, "bad-op")
			}
		}
		var tags []string
		for t := range c.tags {
			tags = append(tags, t)
		}
		// `early` is also a line of the model (Estab: the tail of newSession against the event loop)
		return vResult{out: out, specFail: c.fail, key: c.key, tags: tags, noModel: !strings.HasPrefix(ops[0], "early ")}
	}
	c.sched = &vScheduler{filter: c14Filter}
	vS = c.sched
	defer func() { vS = nil }()
	var out []string
	for _, op := range ops {
		f := vFields(op)
		if len(f) == 2 {
			out = append(out, c.lockstep(f))
		} else {
			out = append(out, "bad-op")
		}
	}
	// finish: threads, clean-ups, and the census of the table
	for _, x := range c.sess {
		for i := 0; x.th != nil && i < 10 && !x.th.done; i++ {
			c.sched.step(x.th)
		}
		x.s.Close()
		x.disp.mu.Lock()
		posts := x.disp.posts
		x.disp.posts = nil
		x.disp.mu.Unlock()
		for _, p := range posts {
			p()
		}
	}
	// S (C14): once every session is closed the table holds nothing of theirs and no file is left
	if c.refs(0) != 0 || c.refs(1) != 0 {
		c.setFail("buffer-manager-reference-leak", fmt.Sprintf("every session is closed and cleaned up, yet the buffer-manager table still counts %d / %d references", c.refs(0), c.refs(1)))
	}
	if n := c12CountFiles(c.prefix); n != 0 {
		c.setFail("close-leaves-resources", fmt.Sprintf("every session is closed, %d file(s) with this case's prefix remain in /dev/shm", n))
	}
	var tags []string
	for t := range c.tags {
		tags = append(tags, t)
	}
	return vResult{out: out, specFail: c.fail, key: c.key, tags: tags}
}

func c14Gen(r *rand.Rand, tier string, idx int) []string {
	if idx%40 == 7 {
		return []string{"early " + []string{"eof", "junk"}[r.Intn(2)]}
	}
	if idx%40 == 27 {
		return []string{"hold " + []string{"peerdeath", "selfclose"}[r.Intn(2)]}
	}
	if idx%10 == 9 {
		mt := []string{"file", "memfd"}[r.Intn(2)]
		mode := []string{"peerdeath", "closeclient", "closeserver"}[r.Intn(3)]
		if r.Intn(3) == 0 {
			mode = "cb" + mode
		}
		return []string{fmt.Sprintf("e2e %s %d %d %s", mt, 1+r.Intn(3), r.Intn(7), mode)}
	}
	var ops []string
	ns := 0
	n := 4 + r.Intn(24)
	for i := 0; i < n; i++ {
		switch x := r.Intn(12); {
		case x < 2 || ns == 0:
			if ns < 5 {
				ops = append(ops, fmt.Sprintf("new %d", r.Intn(2)))
				ns++
			}
		case x < 5:
			ops = append(ops, fmt.Sprintf("close %d", r.Intn(ns)))
		case x < 8:
			ops = append(ops, fmt.Sprintf("cleanup %d", r.Intn(ns)))
		case x < 10:
			ops = append(ops, fmt.Sprintf("opencheck %d", r.Intn(ns)))
		default:
			ops = append(ops, fmt.Sprintf("openinsert %d", r.Intn(ns)))
		}
	}
	return ops
}
