//go:build verif

package shmipc

// C16 / C17: the hot-restart hand-over (Listener.HotRestart / checkHotRestart / handleHotRestartAck on the server,
// handleSessionManagerHotRestart / checkHotRestart on the client) and session healing (the per-pool watcher goroutines of
// SessionManager.background, SessionManager.Close), on the real Listener and SessionManager objects with bare in-package
// sessions. The checker and watcher goroutines are captured by the scheduler; their timers and tickers are channels only
// the harness writes to; connecting to the server (newClientSession) is a hook that succeeds or fails as the op says.
// Line protocol (shared with ShmVerif/Drv/C16.lean):
//   l add <hs> | l hs <uid> | l drop <uid> | l hot <epoch> | l ack <uid> <epoch> | l tick | l timeout
//   m init <n> | m hot <id> <epoch> <conn> | m tick | m timeout | m lose <obj> | m w <id> <fire> <conn> | m cancel | m close

import (
	"context"
	"encoding/binary"
	"errors"
	"fmt"
	"io"
	"math/rand"
	"sort"
	"strconv"
	"strings"
	"bytes"
	"os"
	"runtime"
	"sync/atomic"
	"time"
	"path/filepath"
	"sync"
)

func init() {
	vProps["C16"] = &vProp{model: "c16", quickN: 1200, thoroughN: 20000, gen: func(r *rand.Rand, tier string, idx int) []string { return c16Gen(r, tier, idx, "C16") }, exec: c16Exec}
	vProps["C17"] = &vProp{model: "c16", quickN: 1200, thoroughN: 20000, gen: func(r *rand.Rand, tier string, idx int) []string { return c16Gen(r, tier, idx, "C17") }, exec: c16Exec}
}

type c16Run struct {
	sched *vScheduler
	disp  *vStubDispatcher

	l     *Listener
	lcb   *vListenCB
	lsess map[int]*Session
	lconn map[int]*vStubConn
	lnext int
	lchk  *vThread
	lOK   int
	lFail int
	lsentTo map[int]map[uint64]bool // uid -> epochs sent
	lacked  map[int]map[uint64]bool

	sm      *SessionManager
	objs    []*streamPool
	serial  map[*Session]int
	conns   map[*Session]*vStubConn
	nextSes int
	wth     []*vThread
	watched []*streamPool
	mchk    *vThread
	connOK  bool
	created []string
	hookFromWatcher int
	closed  bool

	pick string // set by stepWatcher when two branches of a select were ready: the one Go took

	fail string
	key  string
	tags map[string]bool
}

func (c *c16Run) setFail(key, what string) {
	if c.fail == "" {
		c.fail, c.key = what, key
	}
}

func c16Filter(site string) bool {
	return site == "sleep" || strings.HasPrefix(site, "sel:")
}

func (c *c16Run) start() {
	internalLogger = &logger{"", io.Discard, 3}
	c.disp = &vStubDispatcher{}
	c.sched = &vScheduler{filter: c16Filter}
	vS = c.sched
	vTimers = nil
	c.lcb = &vListenCB{}
	cfg := NewDefaultListenerConfig("", "unix")
	cfg.LogOutput = io.Discard
	c.l = &Listener{config: cfg, dispatcher: c.disp, sessions: newSessions(), logger: newLogger("listener", io.Discard), callback: c.lcb}
	c.lsess, c.lconn = map[int]*Session{}, map[int]*vStubConn{}
	c.lsentTo, c.lacked = map[int]map[uint64]bool{}, map[int]map[uint64]bool{}
	c.serial, c.conns = map[*Session]int{}, map[*Session]*vStubConn{}
	vNewClientSessionHook = func(sessionID int, epochID, randID uint64, config *SessionManagerConfig) (*Session, error) {
		if c.sched.cur != nil {
			for _, w := range c.wth {
				if w == c.sched.cur {
					c.hookFromWatcher++
					// S (C17): only a pool whose session is lost is rebuilt
					if cur := c.sm.pools[sessionID].Session(); cur != nil && !cur.IsClosed() {
						c.setFail("rebuilt-live-pool", fmt.Sprintf("the watcher of pool %d reconnects although the pool's current session (epoch %d) is alive", sessionID, cur.epochID))
					}
				}
			}
		}
		if !c.connOK {
			return nil, errors.New("verif: connection refused")
		}
		s := c.newClientSess(sessionID, epochID, randID)
		c.created = append(c.created, fmt.Sprintf("%d:%d:%d", sessionID, epochID, c.serial[s]))
		return s, nil
	}
}

func (c *c16Run) newClientSess(sessionID int, epochID, randID uint64) *Session {
	conn := &vStubConn{}
	s := vBareSession(true, nil, nil, conn)
	s.dispatcher = c.disp
	s.sessionID, s.epochID, s.randID = sessionID, epochID, randID
	s.manager = c.sm
	c.serial[s] = c.nextSes
	c.conns[s] = conn
	c.nextSes++
	return s
}

func (c *c16Run) runPosts() {
	for i := 0; i < 100; i++ {
		c.disp.mu.Lock()
		posts := c.disp.posts
		c.disp.posts = nil
		c.disp.mu.Unlock()
		if len(posts) == 0 {
			return
		}
		for _, f := range posts {
			f()
		}
	}
}

// adopt turns the goroutines the last operation started into scheduler threads and runs each to its first select
func (c *c16Run) adopt(kind string) {
	for _, f := range c.sched.spawned {
		th := c.sched.newThread(f)
		switch kind {
		case "lchk":
			c.lchk = th
			c.sched.step(th)
		case "mchk":
			c.mchk = th
			c.sched.step(th)
		case "watch":
			c.wth = append(c.wth, th)
		}
	}
	c.sched.spawned = nil
}

func alive(th *vThread) bool { return th != nil && !th.done }

// ---- server side ----

func (c *c16Run) lsnap() string {
	c.l.mu.Lock()
	defer c.l.mu.Unlock()
	var uids []int
	for uid, s := range c.lsess {
		if _, ok := c.l.sessions.data[s]; ok {
			uids = append(uids, uid)
		}
	}
	sort.Ints(uids)
	var ss, sent []string
	for _, uid := range uids {
		s := c.lsess[uid]
		hs := 0
		if s.handshakeDone {
			hs = 1
		}
		ss = append(ss, fmt.Sprintf("%d:%d:%d", uid, s.state, hs))
	}
	var alluids []int
	for uid := range c.lconn {
		alluids = append(alluids, uid)
	}
	sort.Ints(alluids)
	for _, uid := range alluids {
		var es []int
		for _, w := range c.lconn[uid].wr {
			if len(w) >= headerSize+8 && header(w).MsgType() == typeHotRestart {
				es = append(es, int(binary.BigEndian.Uint64(w[headerSize:])))
			}
		}
		sort.Ints(es)
		for _, e := range es {
			sent = append(sent, fmt.Sprintf("%d:%d", uid, e))
		}
	}
	chk := 0
	if alive(c.lchk) {
		chk = 1
	}
	return fmt.Sprintf("L st=%d ep=%d cnt=%d chk=%d sess=%s sent=%s ok=%d fail=%d", c.l.state, c.l.epoch, c.l.hotRestartAckCount, chk,
		strings.Join(ss, ";"), strings.Join(sent, ";"), c.lOK, c.lFail)
}

func (c *c16Run) lcheck(when string) {
	// S (C16): the listener leaves the hot-restart state within a bounded time: while it is in that state the checker
	// goroutine (whose time-out ends it) must be alive
	if c.l.state == hotRestartState && !alive(c.lchk) {
		c.setFail("listener-stuck-in-hot-restart", fmt.Sprintf("%s: Listener.state is hotRestartState and no checkHotRestart goroutine is alive to end it: IsHotRestartDone() stays false and every later HotRestart returns ErrHotRestartInProgress", when))
	}
}

var errNotReady = errors.New("not ready")

func (c *c16Run) lop(f []string) string {
	switch {
	case len(f) == 3 && f[1] == "add":
		conn := &vStubConn{}
		s := vBareSession(false, nil, nil, conn)
		s.dispatcher = c.disp
		s.listener = c.l
		s.config.listenCallback = &sessionCallback{c.l}
		s.handshakeDone = f[2] == "1"
		c.l.sessions.add(s)
		c.lsess[c.lnext], c.lconn[c.lnext] = s, conn
		c.lnext++
	case len(f) == 3 && f[1] == "hs":
		if s := c.lsess[vAtoi(f[2])]; s != nil {
			s.handshakeDone = true
		}
	case len(f) == 3 && f[1] == "drop":
		if s := c.lsess[vAtoi(f[2])]; s != nil {
			s.Close()
			c.runPosts()
		}
	case len(f) == 3 && f[1] == "hot":
		e := uint64(vAtoi(f[2]))
		err := c.l.HotRestart(e)
		c.adopt("lchk")
		res := "ok"
		switch err {
		case nil:
			c.tags["hot-restart-started"] = true
		case ErrHotRestartInProgress:
			res = "in-progress"
		case ErrInHandshakeStage:
			res = "in-handshake"
			c.tags["hot-restart-in-handshake"] = true
		default:
			res = "err"
		}
		c.lcheck("after " + strings.Join(f, " "))
		return res + " " + c.lsnap()
	case len(f) == 4 && f[1] == "ack":
		uid, e := vAtoi(f[2]), uint64(vAtoi(f[3]))
		if s := c.lsess[uid]; s != nil && !s.IsClosed() {
			buf := make([]byte, 8)
			binary.BigEndian.PutUint64(buf, e)
			hdr := header(make([]byte, headerSize))
			hdr.encode(headerSize+8, s.communicationVersion, typeHotRestartAck)
			wasHot := c.l.state == hotRestartState
			before := c.l.hotRestartAckCount
			handleHotRestartAck(s, hdr, buf)
			if c.l.hotRestartAckCount != before {
				c.tags["ack-counted"] = true
				// S (C16): a stale or foreign ack changes nothing
				if e != c.l.epoch || !wasHot {
					c.setFail("stale-ack-counted", fmt.Sprintf("an ack for epoch %d on session %d changed hotRestartAckCount %d -> %d although the listener (epoch %d, state %d) was not waiting for it", e, uid, before, c.l.hotRestartAckCount, c.l.epoch, c.l.state))
				}
			} else {
				c.tags["ack-ignored"] = true
			}
		}
	case len(f) == 2 && f[1] == "tick":
		if alive(c.lchk) {
			vFire(c.lchk, "ticker")
			st := c.l.state
			c.sched.step(c.lchk)
			if st == hotRestartState && c.l.state == hotRestartDoneState {
				c.lOK++
				c.tags["hand-over-complete"] = true
			}
		}
	case len(f) == 2 && f[1] == "timeout":
		if alive(c.lchk) {
			vFire(c.lchk, "timer")
			c.sched.step(c.lchk)
			c.lFail++
			c.tags["listener-timeout"] = true
		}
	default:
		return "bad-op"
	}
	c.lcheck("after " + strings.Join(f, " "))
	return c.lsnap()
}

// ---- client side ----

func (c *c16Run) objID(p *streamPool) int {
	for i, o := range c.objs {
		if o == p {
			return i
		}
	}
	c.objs = append(c.objs, p)
	return len(c.objs) - 1
}

func (c *c16Run) msnap() string {
	sm := c.sm
	if sm == nil {
		return "M none"
	}
	sm.Lock()
	defer sm.Unlock()
	var pools, res, objs, ws, acks []string
	for _, p := range sm.pools {
		pools = append(pools, fmt.Sprintf("%d", c.objID(p)))
	}
	var ids []int
	for id := range sm.reservePools {
		ids = append(ids, id)
	}
	sort.Ints(ids)
	for _, id := range ids {
		res = append(res, fmt.Sprintf("%d:%d", id, c.objID(sm.reservePools[id])))
	}
	for _, o := range c.objs {
		s := o.Session()
		a := 1
		if s.IsClosed() {
			a = 0
		}
		objs = append(objs, fmt.Sprintf("%d:%d:%d", c.serial[s], s.epochID, a))
	}
	for _, th := range c.wth {
		switch {
		case th.done:
			ws = append(ws, "done")
		case th.site == "start", th.site == "sleep":
			ws = append(ws, th.site)
		case strings.HasSuffix(th.site, "#0"):
			ws = append(ws, "sel")
		case strings.HasSuffix(th.site, "#1"):
			ws = append(ws, "timer")
		default:
			ws = append(ws, "?"+th.site)
		}
	}
	type pr struct{ a, b int }
	var ak []pr
	for s, conn := range c.conns {
		for _, w := range conn.wr {
			if len(w) >= headerSize+8 && header(w).MsgType() == typeHotRestartAck {
				ak = append(ak, pr{c.serial[s], int(binary.BigEndian.Uint64(w[headerSize:]))})
			}
		}
	}
	sort.Slice(ak, func(i, j int) bool { return ak[i].a < ak[j].a || (ak[i].a == ak[j].a && ak[i].b < ak[j].b) })
	for _, p := range ak {
		acks = append(acks, fmt.Sprintf("%d:%d", p.a, p.b))
	}
	chk, can, cl := 0, 0, 0
	if alive(c.mchk) {
		chk = 1
	}
	if sm.ctx.Err() != nil {
		can = 1
	}
	if c.closed {
		cl = 1
	}
	return fmt.Sprintf("M st=%d ep=%d chk=%d can=%d cl=%d pools=%s reserve=%s objs=%s w=%s acks=%s created=%s", sm.state, sm.epoch, chk, can, cl,
		strings.Join(pools, ","), strings.Join(res, ";"), strings.Join(objs, ";"), strings.Join(ws, ","), strings.Join(acks, ";"), strings.Join(c.created, ";"))
}

func (c *c16Run) mcheck(when string) {
	sm := c.sm
	if sm == nil {
		return
	}
	// S (C16): the session manager leaves the hot-restart state within a bounded time
	if sm.state == hotRestartState && !alive(c.mchk) {
		c.setFail("manager-stuck-in-hot-restart", fmt.Sprintf("%s: SessionManager.state is hotRestartState and no checkHotRestart goroutine is alive to end it", when))
	}
	// S (C16): at every moment every pool holds a session (GetStream never dereferences nil)
	for i, p := range sm.pools {
		if p == nil || p.Session() == nil {
			c.setFail("pool-without-session", fmt.Sprintf("%s: pool %d holds no session", when, i))
		}
	}
	if c.closed {
		// S (C17 / C14): closing the manager closes every session it created
		for s, n := range c.serial {
			if !s.IsClosed() {
				c.setFail("close-leaves-session-open", fmt.Sprintf("%s: SessionManager.Close returned, session #%d (index %d, epoch %d) is still open", when, n, s.sessionID, s.epochID))
			}
		}
	}
}

func (c *c16Run) watcherReady(id int, fire bool) bool {
	th := c.wth[id]
	if th.done {
		return false
	}
	switch {
	case th.site == "start", th.site == "sleep":
		return true
	case strings.HasSuffix(th.site, "#0"):
		return c.watched[id].Session().IsClosed() || c.sm.ctx.Err() != nil
	case strings.HasSuffix(th.site, "#1"):
		return fire || c.sm.ctx.Err() != nil
	}
	return false
}

func (c *c16Run) stepWatcher(id int, fire, conn bool) {
	if id < 0 || id >= len(c.wth) || !c.watcherReady(id, fire) {
		return
	}
	th := c.wth[id]
	both := false
	if strings.HasSuffix(th.site, "#1") && fire {
		both = c.sm.ctx.Err() != nil
		if !vFire(th, "timer") {
			// the timer this select waits on has already expired and was not reset: a real timer stays silent for ever
			c.tags["rebuild-timer-silent"] = true
			if c.sm.ctx.Err() == nil {
				return
			}
			both = false
		} else {
			c.tags["rebuild-timer-fired"] = true
		}
	}
	if strings.HasSuffix(th.site, "#0") && c.watched[id].Session().IsClosed() && c.sm.ctx.Err() != nil {
		both = true
	}
	c.connOK = conn
	n0 := len(c.created)
	c.sched.step(th)
	if both {
		// two branches of the select were ready and Go chose at random: tell the model which one ran
		c.tags["select-both-ready"] = true
		if th.done {
			c.pick = "ctx"
		} else {
			c.pick = "ev"
		}
	}
	if len(c.created) > n0 {
		c.tags["rebuilt"] = true
	}
	c.runPosts()
	if !th.done && strings.HasSuffix(th.site, "#0") {
		c.watched[id] = c.sm.pools[id]
	}
}

func (c *c16Run) mop(f []string) string {
	switch {
	case len(f) == 3 && f[1] == "init" && c.sm == nil:
		n := vAtoi(f[2])
		if n < 1 || n > 4 {
			return "bad-op"
		}
		cfg := DefaultSessionManagerConfig()
		cfg.LogOutput = io.Discard
		cfg.MaxStreamNum = 4
		c.sm = &SessionManager{config: cfg, pools: make([]*streamPool, 0, n), ctx: context.Background()}
		for i := 0; i < n; i++ {
			s := c.newClientSess(i, 0, 0)
			p := newStreamPool(4)
			p.session.Store(s)
			c.sm.pools = append(c.sm.pools, p)
			c.objID(p)
		}
		c.sm.background()
		c.adopt("watch")
		c.watched = make([]*streamPool, n)
	case c.sm == nil:
		return "bad-op"
	case len(f) == 5 && f[1] == "hot":
		id, e := vAtoi(f[2]), uint64(vAtoi(f[3]))
		if id < 0 || id >= len(c.sm.pools) {
			return "bad-op"
		}
		c.connOK = f[4] == "1"
		// the event arrives on the session the pool of that index currently holds
		sess := c.sm.pools[id].Session()
		st0 := c.sm.state
		handleSessionManagerHotRestart(c.sm, &sessionManagerHotRestartParams{epoch: e, session: sess})
		c.adopt("mchk")
		c.runPosts()
		if st0 == hotRestartState && c.sm.epoch != e {
			c.tags["foreign-epoch-during-restart"] = true
		}
		if !c.connOK {
			c.tags["new-server-unreachable"] = true
		}
		c.msnapObjs()
	case len(f) == 2 && f[1] == "tick":
		if alive(c.mchk) {
			vFire(c.mchk, "ticker")
			c.sched.step(c.mchk)
			if c.mchk.done {
				c.tags["client-hand-over-complete"] = true
			}
		}
	case len(f) == 2 && f[1] == "timeout":
		if alive(c.mchk) {
			vFire(c.mchk, "timer")
			c.sched.step(c.mchk)
			c.runPosts()
			c.tags["manager-timeout"] = true
		}
	case len(f) == 3 && f[1] == "lose":
		o := vAtoi(f[2])
		if o >= 0 && o < len(c.objs) {
			c.objs[o].Session().Close()
			c.runPosts()
			c.tags["session-lost"] = true
		}
	case len(f) == 5 && f[1] == "w":
		c.stepWatcher(vAtoi(f[2]), f[3] == "1", f[4] == "1")
	case len(f) == 2 && f[1] == "cancel":
		c.sm.cancelFunc()
	case len(f) == 2 && f[1] == "close":
		all := c.sm.ctx.Err() != nil && !c.closed
		for _, th := range c.wth {
			if !th.done {
				all = false
			}
		}
		if all {
			c.sm.Close()
			c.runPosts()
			c.closed = true
			c.tags["manager-closed"] = true
		}
	default:
		return "bad-op"
	}
	c.mcheck("after " + strings.Join(f, " "))
	return c.msnap()
}

// msnapObjs registers pool objects created by the last operation, in creation order
func (c *c16Run) msnapObjs() {
	for _, p := range c.sm.pools {
		c.objID(p)
	}
}

// settle: the healing property on the real objects. With the manager open and not in hot restart, every pool whose
// session is lost gets a working session again once its rebuild timer fires and the server is reachable.
func (c *c16Run) settle() {
	sm := c.sm
	if sm == nil || c.closed || sm.ctx.Err() != nil {
		return
	}
	for k := 0; k < 4 && sm.state == hotRestartState && alive(c.mchk); k++ {
		vFire(c.mchk, "timer")
		c.sched.step(c.mchk)
		c.runPosts()
	}
	c.mcheck("while settling")
	if sm.state == hotRestartState {
		return
	}
	// the old server lets go of the sessions parked by the last hot restart (a watcher may still be waiting on one)
	for _, p := range sm.reservePools {
		p.Session().Close()
	}
	c.runPosts()
	for id := range c.wth {
		for k := 0; k < 8; k++ {
			c.stepWatcher(id, true, true)
		}
	}
	for id, p := range sm.pools {
		s := p.Session()
		if s == nil || s.IsClosed() || !s.IsHealthy() {
			// S (C17): a lost session is replaced after the rebuild interval as soon as the server is reachable
			c.setFail("not-healed", fmt.Sprintf("pool %d: its session is lost; the rebuild timer fired and the server was reachable (8 watcher steps, the old server has closed the parked sessions), yet the pool still holds a dead session (watcher at %q)", id, c.wth[id].site))
		}
	}
}

// ---- API level: the real NewListener / Run / NewSessionManager / GetStream / PutBack / Close over a unix socket ----

var c16ApiSeq uint64

type c16EchoCB struct{}

var c16DbgMu sync.Mutex
var c16DbgSessions = map[*Session]string{}

func (c16EchoCB) OnShutdown(reason string) {}
func (c16EchoCB) OnNewStream(s *Stream) {
	if os.Getenv("VERIF_DEBUG") != "" {
		c16DbgMu.Lock()
		c16DbgSessions[s.session] = "server"
		c16DbgMu.Unlock()
	}
	go func() {
		for {
			hd, err := s.BufferReader().ReadBytes(4)
			if err != nil {
				return
			}
			n := int(hd[0]) | int(hd[1])<<8 | int(hd[2])<<16 | int(hd[3])<<24
			body, err := s.BufferReader().ReadBytes(n)
			if err != nil {
				return
			}
			out := append(append([]byte{}, hd...), body...)
			s.BufferReader().ReleasePreviousRead()
			if _, err := s.BufferWriter().WriteBytes(out); err != nil {
				return
			}
			if err := s.Flush(false); err != nil {
				return
			}
		}
	}()
}

// api <file|memfd> <sessions> <rounds>: echo rounds through pooled streams, one session lost and healed, everything closed
// c16LogBuf keeps what the library logged during an API-level scenario; a failure report quotes its warnings and errors
type c16LogBuf struct {
	mu sync.Mutex
	b  bytes.Buffer
}

func (l *c16LogBuf) Write(p []byte) (int, error) {
	l.mu.Lock()
	defer l.mu.Unlock()
	if l.b.Len() < 1<<20 {
		l.b.Write(p)
	}
	return len(p), nil
}

func (l *c16LogBuf) tail(n int) string {
	l.mu.Lock()
	defer l.mu.Unlock()
	var keep []string
	for _, ln := range strings.Split(l.b.String(), "\n") {
		if strings.Contains(ln, "Error") || strings.Contains(ln, "Warn") {
			if i := strings.Index(ln, ".go:"); i > 12 {
				ln = ln[i-12:]
			}
			keep = append(keep, strings.TrimSpace(strings.ReplaceAll(strings.ReplaceAll(ln, "\x1b[0m", ""), "\x1b[9", "")))
		}
	}
	if len(keep) > n {
		keep = keep[len(keep)-n:]
	}
	return strings.Join(keep, " // ")
}

func c16Api(f []string) vResult {
	res := vResult{noModel: true, out: []string{"done"}}
	lb := &c16LogBuf{}
	setFail := func(k, w string) {
		if res.specFail == "" {
			res.specFail, res.key = w+" [library log: "+lb.tail(10)+"]", k
		}
	}
	mt := MemMapTypeDevShmFile
	if f[1] == "memfd" {
		mt = MemMapTypeMemFd
	}
	nsess, rounds := vAtoi(f[2]), vAtoi(f[3])
	if nsess < 1 || nsess > 3 || rounds < 1 || rounds > 8 {
		res.out = []string{"bad-op"}
		return res
	}
	// the rebuild interval: users cannot set it (60 s); well above the event loop's 1 s idle tick by default, so that the lost
	// session's clean-up on BOTH ends (which removes the queue file by name) is over before a session of the same name is
	// created again; a fifth field asks for a shorter one (the rebuild then meets the old session's leftovers)
	interval := 1500 * time.Millisecond
	if len(f) == 5 {
		interval = time.Duration(vAtoi(f[4])) * time.Millisecond
		if interval < 10*time.Millisecond || interval > 5*time.Second {
			res.out = []string{"bad-op"}
			return res
		}
	}
	internalLogger = &logger{"", lb, 3}
	level = levelWarn
	defer func() { level = levelNoPrint; internalLogger = &logger{"", io.Discard, 3} }()
	n := atomic.AddUint64(&c16ApiSeq, 1)
	prefix := fmt.Sprintf("/dev/shm/verif_api_%d_%d", os.Getpid(), n)
	path := fmt.Sprintf("/tmp/verif_api_%d_%d.sock", os.Getpid(), n)
	c12WarmOnce.Do(func() {
		w := &c12Run{tags: map[string]bool{}}
		w.scenario([]string{"pair", "file"})
		w.scenario([]string{"pair", "memfd"})
	})
	runtime.GC()
	fd0, maps0 := c12CountFds(), c12CountMaps(prefix)
	lcfg := &ListenerConfig{Config: c12Config(prefix+"_srv", mt), Network: "unix", ListenPath: path}
	lcfg.Config.LogOutput = lb
	ln, err := NewListener(c16EchoCB{}, lcfg)
	if err != nil {
		setFail("setup", "NewListener: "+err.Error())
		return res
	}
	ln.SetUnlinkOnClose(true)
	go ln.Run()
	scfg := DefaultSessionManagerConfig()
	scfg.Config = c12Config(prefix, mt)
	scfg.Network, scfg.Address = "unix", path
	scfg.SessionNum = nsess
	scfg.Config.LogOutput = lb
	scfg.rebuildInterval = interval
	if os.Getenv("VERIF_DEBUG") != "" {
		vNewClientSessionHook = func(sessionID int, epochID, randID uint64, config *SessionManagerConfig) (*Session, error) {
			cs, err := newClientSession(sessionID, epochID, randID, config)
			if cs != nil {
				c16DbgMu.Lock()
				c16DbgSessions[cs] = fmt.Sprintf("client-%d", sessionID)
				c16DbgMu.Unlock()
			}
			return cs, err
		}
		defer func() { vNewClientSessionHook = nil }()
	}
	sm, err := NewSessionManager(scfg)
	if err != nil {
		ln.Close()
		setFail("api-call-fails", "NewSessionManager against a running listener: "+err.Error())
		return res
	}
	dbgRef := func(when string) {
		if os.Getenv("VERIF_DEBUG") == "" {
			return
		}
		bufferManagers.Lock()
		for k, bm := range bufferManagers.bms {
			if strings.HasPrefix(k, prefix) {
				fmt.Fprintf(os.Stderr, "DEBUG ref %s: %s = %d\n", when, k, bm.refCount)
			}
		}
		bufferManagers.Unlock()
	}
	dbgRef("after NewSessionManager")
	var echoSess *Session // the session of the stream the last echo used
	var setFail0 = setFail
	echo := func(tag string) bool {
		st, err := sm.GetStream()
		if err != nil {
			setFail("api-call-fails", tag+": GetStream: "+err.Error())
			return false
		}
		echoSess = st.Session()
		body := []byte(fmt.Sprintf("%s-payload-%d", tag, n))
		msg := append([]byte{byte(len(body)), byte(len(body) >> 8), 0, 0}, body...)
		st.SetDeadline(time.Now().Add(8 * time.Second))
		if _, err := st.BufferWriter().WriteBytes(msg); err != nil {
			setFail("api-call-fails", tag+": WriteBytes: "+err.Error())
			return false
		}
		if err := st.Flush(false); err != nil {
			setFail("api-call-fails", tag+": Flush: "+err.Error())
			return false
		}
		got, err := st.BufferReader().ReadBytes(len(msg))
		if err != nil {
			setFail("api-call-fails", tag+": reading the echo: "+err.Error())
			return false
		}
		if !bytes.Equal(got, msg) {
			setFail("api-echo-mismatch", fmt.Sprintf("%s: sent %q, the echo is %q", tag, msg, got))
		}
		st.BufferReader().ReleasePreviousRead()
		sm.PutBack(st)
		return true
	}
	ok := true
	for r := 0; r < rounds && ok; r++ {
		ok = echo(fmt.Sprintf("round-%d", r))
	}
	if ok {
		// S (C17): a lost session is replaced (same pool), the others are left alone
		lost := sm.pools[0].Session()
		others := make([]*Session, 0)
		for _, p := range sm.pools[1:] {
			others = append(others, p.Session())
		}
		dbgRef("before loss")
		// while the replacement is being established (a server that is slow to answer: here 400 ms per attempt) callers keep
		// calling GetStream: each call returns at once - a stream of a healthy pool or an error - it never waits for the rebuild
		var slowest int64
		var probing int32 = 1
		prev := vNewClientSessionHook
		vNewClientSessionHook = func(sessionID int, epochID, randID uint64, config *SessionManagerConfig) (*Session, error) {
			time.Sleep(400 * time.Millisecond)
			if prev != nil {
				return prev(sessionID, epochID, randID, config)
			}
			return newClientSession(sessionID, epochID, randID, config)
		}
		probeDone := make(chan struct{})
		go func() {
			defer close(probeDone)
			for atomic.LoadInt32(&probing) == 1 {
				t0 := time.Now()
				st, err := sm.GetStream()
				if d := int64(time.Since(t0)); d > atomic.LoadInt64(&slowest) {
					atomic.StoreInt64(&slowest, d)
				}
				if err == nil && st != nil {
					sm.PutBack(st)
				}
				time.Sleep(5 * time.Millisecond)
			}
		}()
		lost.Close()
		healed := c19WaitFor(10*time.Second, func() bool {
			s := sm.pools[0].Session()
			return s != lost && s != nil && !s.IsClosed() && s.IsHealthy()
		})
		atomic.StoreInt32(&probing, 0)
		select {
		case <-probeDone:
		case <-time.After(5 * time.Second):
			setFail("getstream-blocks-during-rebuild", "a GetStream call made while a lost session was being replaced has not returned 5 s after the replacement was there")
		}
		vNewClientSessionHook = prev
		if d := time.Duration(atomic.LoadInt64(&slowest)); d > 250*time.Millisecond {
			setFail("getstream-blocks-during-rebuild", fmt.Sprintf("while pool 0 was being rebuilt (each attempt takes 400 ms at the server) a GetStream call took %v: calls made in between must fail with an error (or use a healthy pool), not wait for the rebuild", d.Round(time.Millisecond)))
		}
		dbgRef("after heal")
		if os.Getenv("VERIF_DEBUG") != "" {
			time.Sleep(1500 * time.Millisecond)
			dbgRef("1.5 s after heal")
		}
		if !healed {
			setFail("not-healed", "the session of pool 0 was lost while the server is reachable; 10 s later (rebuild interval 50 ms) the pool still has no working session")
		}
		for i, p := range sm.pools[1:] {
			if p.Session() != others[i] {
				setFail("healthy-session-replaced", fmt.Sprintf("pool %d was healthy, yet its session was replaced when pool 0 lost its session", i+1))
			}
		}
		// a replacement can itself be lost (e.g. when it was created while the old session's clean-up on the other end had
		// not yet removed the queue file of the same name): that is one more loss, which must heal the same way; what may
		// not happen is that calls keep failing on sessions that are alive, or hang
		relost := 0
		for r := 0; r < 2*nsess*int(sessionRoundRobinThreshold) && ok && r < 40; r++ {
			var held struct{ w, k string }
			setFail = func(k, w string) { held.k, held.w = k, w }
			good := echo(fmt.Sprintf("after-heal-%d", r))
			setFail = setFail0
			if good && held.k == "" {
				continue
			}
			if held.k == "api-call-fails" && echoSess != nil && echoSess.IsClosed() && relost < 3 {
				relost++
				dead := echoSess
				if !c19WaitFor(10*time.Second, func() bool {
					for _, p := range sm.pools {
						if ps := p.Session(); ps == dead || ps == nil || ps.IsClosed() || !ps.IsHealthy() {
							return false
						}
					}
					return true
				}) {
					setFail("not-healed", "a replacement session was lost in turn; 10 s later its pool still has no working session")
					ok = false
				}
				res.tags = append(res.tags, "replacement-lost-again")
				continue
			}
			setFail(held.k, held.w)
			ok = false
		}
	}
	if os.Getenv("VERIF_DEBUG") != "" {
		ln.sessions.sessionMu.Lock()
		for ss := range ln.sessions.data {
			c16DbgMu.Lock()
			if _, ok := c16DbgSessions[ss]; !ok {
				c16DbgSessions[ss] = "server(no stream)"
			}
			c16DbgMu.Unlock()
		}
		fmt.Fprintf(os.Stderr, "DEBUG listener tracks %d sessions\n", len(ln.sessions.data))
		ln.sessions.sessionMu.Unlock()
	}
	dbgRef("before Close")
	sm.Close()
	if os.Getenv("VERIF_DEBUG") != "" {
		time.Sleep(1500 * time.Millisecond)
		dbgRef("1.5 s after sm.Close")
	}
	ln.Close()
	// S (C14/C17): closing the manager and the listener releases everything
	for t0 := time.Now(); time.Since(t0) < 8*time.Second; {
		runtime.GC()
		if c12CountFds() <= fd0 && c12CountMaps(prefix) <= maps0 && c12CountFiles(prefix) == 0 {
			break
		}
		time.Sleep(5 * time.Millisecond)
	}
	if fd1, m1, fl := c12CountFds(), c12CountMaps(prefix), c12CountFiles(prefix); fd1 > fd0 || m1 > maps0 || fl > 0 {
		left, _ := filepath.Glob(prefix + "*")
		if os.Getenv("VERIF_DEBUG") != "" {
			bufferManagers.Lock()
			for k, bm := range bufferManagers.bms {
				if strings.HasPrefix(k, prefix) {
					fmt.Fprintf(os.Stderr, "DEBUG left bm %s ref=%d\n", k, bm.refCount)
				}
			}
			bufferManagers.Unlock()
			c16DbgMu.Lock()
			for ss, who := range c16DbgSessions {
				fmt.Fprintf(os.Stderr, "DEBUG session %s closed=%v qmNil=%v streams=%v bm=%v\n", who, ss.IsClosed(), ss.queueManager == nil, ss.streams == nil, ss.bufferManager != nil)
			}
			c16DbgMu.Unlock()
			buf := make([]byte, 1<<20)
			nb := runtime.Stack(buf, true)
			for _, blk := range strings.Split(string(buf[:nb]), "\n\n") {
				if strings.Contains(blk, "shmipc-go.(*Session)") || strings.Contains(blk, "epollDispatcher") || strings.Contains(blk, "SessionManager") {
					fmt.Fprintf(os.Stderr, "DEBUG goroutine:\n%s\n\n", blk)
				}
			}
		}
		setFail("close-leaves-resources", fmt.Sprintf("manager and listener closed, yet %d descriptor(s) more than before, %d mapping(s) and %d file(s) remain: %v", fd1-fd0, m1-maps0, fl, left))
	}
	os.Remove(path)
	res.tags = append(res.tags, "api-level-echo-heal-close")
	return res
}

type c16CountCB struct {
	c16EchoCB
	n *int64
}

func (c c16CountCB) OnNewStream(s *Stream) {
	atomic.AddInt64(c.n, 1)
	c.c16EchoCB.OnNewStream(s)
}

// apihot <file|memfd> <sessions>: a real hot restart: old listener, manager, traffic, new listener on the same address,
// HotRestart(epoch), old listener closed, traffic again (now served by the new listener), everything closed
func c16ApiHot(f []string) vResult {
	res := vResult{noModel: true, out: []string{"done"}}
	setFail := func(k, w string) {
		if res.specFail == "" {
			res.specFail, res.key = w, k
		}
	}
	mt := MemMapTypeDevShmFile
	if f[1] == "memfd" {
		mt = MemMapTypeMemFd
	}
	nsess := vAtoi(f[2])
	if nsess < 1 || nsess > 3 {
		res.out = []string{"bad-op"}
		return res
	}
	internalLogger = &logger{"", io.Discard, 3}
	if os.Getenv("VERIF_DEBUG") != "" {
		internalLogger = &logger{"", os.Stderr, 3}
		level = levelInfo
		defer func() { level = levelNoPrint }()
	}
	n := atomic.AddUint64(&c16ApiSeq, 1)
	prefix := fmt.Sprintf("/dev/shm/verif_apihot_%d_%d", os.Getpid(), n)
	// apihot <map> <n> x: the FIRST hand-over is announced while no new server listens (nobody can acknowledge): both sides
	// must leave the restart state within their time-out, and the next hand-over - with a server - must be accepted and work
	noServerFirst := len(f) == 4 && f[3] == "x"
	if noServerFirst {
		f = f[:3]
	}
	if len(f) == 4 {
		// a prefix of a chosen length (as newClientSession measures it: with "_<pid>" appended): either the configuration is
		// refused when the manager is created, or every later hand-over finds room for its longer names
		want := vAtoi(f[3]) - len("_"+strconv.Itoa(os.Getpid()))
		if want < len(prefix)+1 || want > 240 {
			res.out = []string{"bad-op"}
			return res
		}
		prefix += "_" + strings.Repeat("x", want-len(prefix)-1)
	}
	path := fmt.Sprintf("/tmp/verif_apihot_%d_%d.sock", os.Getpid(), n)
	c12WarmOnce.Do(func() {
		w := &c12Run{tags: map[string]bool{}}
		w.scenario([]string{"pair", "file"})
		w.scenario([]string{"pair", "memfd"})
	})
	runtime.GC()
	fd0, maps0 := c12CountFds(), c12CountMaps(prefix)
	var servedOld, servedNew int64
	mkListener := func(cnt *int64, tag string) *Listener {
		lcfg := &ListenerConfig{Config: c12Config(prefix+"_srv_"+tag, mt), Network: "unix", ListenPath: path}
		if os.Getenv("VERIF_DEBUG") != "" {
			lcfg.Config.LogOutput = os.Stderr
		}
		ln, err := NewListener(c16CountCB{n: cnt}, lcfg)
		if err != nil {
			setFail("setup", "NewListener: "+err.Error())
			return nil
		}
		ln.SetUnlinkOnClose(false)
		go ln.Run()
		return ln
	}
	old := mkListener(&servedOld, "old")
	if old == nil {
		return res
	}
	scfg := DefaultSessionManagerConfig()
	scfg.Config = c12Config(prefix, mt)
	scfg.Network, scfg.Address = "unix", path
	scfg.SessionNum = nsess
	sm, err := NewSessionManager(scfg)
	if err != nil {
		old.Close()
		if len(f) == 4 && err == ErrFileNameTooLong {
			// refused up-front: nothing exists whose hand-over could fail on names
			os.Remove(path)
			res.tags = []string{"api-level-hot-restart", "prefix-refused"}
			return res
		}
		setFail("api-call-fails", "NewSessionManager against a running listener: "+err.Error())
		return res
	}
	echo := func(tag string) bool {
		st, err := sm.GetStream()
		if err != nil {
			setFail("api-call-fails", tag+": GetStream: "+err.Error())
			return false
		}
		body := []byte(fmt.Sprintf("%s-payload-%d", tag, n))
		msg := append([]byte{byte(len(body)), byte(len(body) >> 8), 0, 0}, body...)
		st.SetDeadline(time.Now().Add(8 * time.Second))
		st.BufferWriter().WriteBytes(msg)
		if err := st.Flush(false); err != nil {
			setFail("api-call-fails", tag+": Flush: "+err.Error())
			return false
		}
		got, err := st.BufferReader().ReadBytes(len(msg))
		if err != nil {
			setFail("api-call-fails", tag+": reading the echo: "+err.Error())
			return false
		}
		if !bytes.Equal(got, msg) {
			setFail("api-echo-mismatch", fmt.Sprintf("%s: sent %q, the echo is %q", tag, msg, got))
		}
		st.BufferReader().ReleasePreviousRead()
		sm.PutBack(st)
		return true
	}
	ok := echo("before-restart")
	epoch := uint64(7)
	if ok && noServerFirst {
		res.tags = append(res.tags, "hand-over-without-a-new-server-first")
		c19WaitFor(4*time.Second, func() bool {
			old.sessions.sessionMu.Lock()
			defer old.sessions.sessionMu.Unlock()
			return len(old.sessions.data) == nsess
		})
		os.Remove(path) // nobody listens on the address: the clients' connection attempts fail
		if err := old.HotRestart(epoch); err != nil {
			setFail("api-call-fails", "Listener.HotRestart (no new server yet): "+err.Error())
			ok = false
		} else {
			// S (C16): both sides leave the restart state within a bounded time when the hand-over times out
			if !c19WaitFor(8*time.Second, func() bool { return old.IsHotRestartDone() }) {
				setFail("listener-stuck-in-hot-restart", "8 s after a HotRestart that nobody could acknowledge (no new server) the old listener is still in the restart state (its time-out is 2 s)")
				ok = false
			}
			if !c19WaitFor(8*time.Second, func() bool {
				sm.RLock()
				defer sm.RUnlock()
				return sm.state != hotRestartState
			}) {
				setFail("manager-stuck-in-hot-restart", "8 s after a hand-over that could not connect the manager is still in the restart state")
				ok = false
			}
		}
		epoch = 8
	}
	nw := mkListener(&servedNew, "new")
	if ok && nw != nil {
		// Listener.Run registers a session only after newSession (the whole server-side handshake) has returned, so the
		// client can be through NewSessionManager a moment before the listener knows all its sessions; a HotRestart in
		// that window legitimately takes the partial / time-out path.  This scenario is about the complete hand-over.
		c19WaitFor(4*time.Second, func() bool {
			old.sessions.sessionMu.Lock()
			defer old.sessions.sessionMu.Unlock()
			return len(old.sessions.data) == nsess
		})
		if err := old.HotRestart(epoch); err != nil {
			if noServerFirst {
				setFail("listener-stuck-in-hot-restart", "after a hand-over that timed out the next HotRestart is refused: "+err.Error())
			}
			setFail("api-call-fails", "Listener.HotRestart: "+err.Error())
		} else {
			// S (C16): the hand-over completes - every client session is moved, nobody is left in the restart state
			if !c19WaitFor(12*time.Second, func() bool { return old.IsHotRestartDone() }) {
				setFail("hot-restart-not-done", "12 s after HotRestart the old listener still does not report the hand-over as done")
			}
			moved := c19WaitFor(12*time.Second, func() bool {
				sm.RLock()
				defer sm.RUnlock()
				if sm.state == hotRestartState {
					return false
				}
				for _, p := range sm.pools {
					s := p.Session()
					if s == nil || s.epochID != epoch || s.IsClosed() || !s.IsHealthy() {
						return false
					}
				}
				return true
			})
			if !moved {
				desc := fmt.Sprintf("manager state=%d epoch=%d;", sm.state, sm.epoch)
				for i, p := range sm.pools {
					if ps := p.Session(); ps != nil {
						desc += fmt.Sprintf(" pool %d: epoch=%d closed=%v healthy=%v;", i, ps.epochID, ps.IsClosed(), ps.IsHealthy())
					}
				}
				old.sessions.sessionMu.Lock()
				desc += fmt.Sprintf(" old listener tracks %d sessions:", len(old.sessions.data))
				for ss := range old.sessions.data {
					desc += fmt.Sprintf(" [state=%d hs=%v closed=%v]", ss.state, ss.handshakeDone, ss.IsClosed())
				}
				old.sessions.sessionMu.Unlock()
				setFail("manager-stuck-in-hot-restart", "12 s after the server announced the new epoch the manager is still in the restart state or a pool still holds a session of the old epoch / a dead session: "+desc)
			}
			old.Close()
			before := atomic.LoadInt64(&servedNew)
			if echo("after-restart") && atomic.LoadInt64(&servedNew) == before && atomic.LoadInt64(&servedOld) > 1 {
				setFail("served-by-old-server", "after the hand-over a new stream was still served by the old listener")
			}
		}
	}
	sm.Close()
	old.Close()
	if nw != nil {
		nw.Close()
	}
	for t0 := time.Now(); time.Since(t0) < 8*time.Second; {
		runtime.GC()
		if c12CountFds() <= fd0 && c12CountMaps(prefix) <= maps0 && c12CountFiles(prefix) == 0 {
			break
		}
		time.Sleep(5 * time.Millisecond)
	}
	if fd1, m1, fl := c12CountFds(), c12CountMaps(prefix), c12CountFiles(prefix); fd1 > fd0 || m1 > maps0 || fl > 0 {
		left, _ := filepath.Glob(prefix + "*")
		setFail("close-leaves-resources", fmt.Sprintf("manager and both listeners closed, yet %d descriptor(s) more than before, %d mapping(s) and %d file(s) remain: %v", fd1-fd0, m1-maps0, fl, left))
	}
	os.Remove(path)
	res.tags = []string{"api-level-hot-restart"}
	return res
}

func c16Exec(ops []string) vResult {
	if len(ops) == 1 && strings.HasPrefix(ops[0], "apihot ") {
		if f := vFields(ops[0]); len(f) == 3 || len(f) == 4 {
			return c16ApiHot(f)
		}
	}
	if len(ops) == 1 && strings.HasPrefix(ops[0], "api ") {
		if f := vFields(ops[0]); len(f) == 4 || len(f) == 5 {
			return c16Api(f)
		}
	}
	c := &c16Run{tags: map[string]bool{}}
	var out []string
	defer func() {
		vS = nil
		vNewClientSessionHook = nil
		vTimers = nil
	}()
	c.start()
	var resolved []string
	for _, op := range ops {
		f := vFields(op)
		c.pick = ""
		switch {
		case len(f) >= 2 && f[0] == "l":
			out = append(out, c.lop(f))
		case len(f) >= 2 && f[0] == "m":
			out = append(out, c.mop(f))
		default:
			out = append(out, "bad-op")
		}
		if c.pick != "" {
			op += " " + c.pick
		}
		resolved = append(resolved, op)
	}
	c.settle()
	// let every captured goroutine end
	if c.sm != nil && c.sm.ctx.Err() == nil {
		c.sm.cancelFunc()
	}
	if c.sm != nil {
		c.sm.Lock()
		c.sm.state = defaultState // a watcher polls this state in a sleep loop
		c.sm.Unlock()
	}
	if c.l != nil {
		c.l.mu.Lock()
		c.l.state = defaultState
		c.l.mu.Unlock()
	}
	c.sched.filter = func(string) bool { return false }
	for _, th := range c.sched.threads {
		if !th.done {
			vFire(th, "timer")
			for k := 0; k < 20 && !th.done; k++ {
				c.sched.step(th)
			}
		}
	}
	var tags []string
	for t := range c.tags {
		tags = append(tags, t)
	}
	return vResult{out: out, specFail: c.fail, key: c.key, tags: tags, opsOut: resolved}
}

func c16Gen(r *rand.Rand, tier string, idx int, prop string) []string {
	if prop == "C16" && idx%300 == 33 {
		return []string{fmt.Sprintf("apihot %s %d x", []string{"file", "memfd"}[r.Intn(2)], 1+r.Intn(2))}
	}
	if prop == "C16" && idx%300 == 133 {
		return []string{fmt.Sprintf("apihot %s %d", []string{"file", "memfd"}[r.Intn(2)], 1+r.Intn(3))}
	}
	if prop == "C16" && idx%300 == 233 {
		// prefix lengths around newClientSession's name budget (180 is the longest accepted one)
		return []string{fmt.Sprintf("apihot %s %d %d", []string{"file", "file", "memfd"}[r.Intn(3)], 1+r.Intn(2), 150+r.Intn(91))}
	}
	if prop == "C17" && idx%200 == 77 {
		if r.Intn(3) == 0 {
			return []string{fmt.Sprintf("api %s %d %d %d", []string{"file", "memfd"}[r.Intn(2)], 1+r.Intn(3), 1+r.Intn(4), []int{50, 200}[r.Intn(2)])}
		}
		return []string{fmt.Sprintf("api %s %d %d", []string{"file", "memfd"}[r.Intn(2)], 1+r.Intn(3), 1+r.Intn(4))}
	}
	var ops []string
	n := 6 + r.Intn(30)
	// server side
	nsess := 0
	lepoch := 0
	// client side
	np := 0
	mepoch := 0
	nobj := 0
	inCycle := false
	swapped := map[int]bool{}
	both := r.Intn(3)
	if prop == "C17" && both == 0 {
		both = 1
	}
	for i := 0; i < n; i++ {
		server := both == 0 || (both == 2 && r.Intn(2) == 0)
		if server {
			switch x := r.Intn(20); {
			case x < 4 || nsess == 0:
				hs := 1
				if r.Intn(6) == 0 {
					hs = 0
				}
				ops = append(ops, fmt.Sprintf("l add %d", hs))
				nsess++
			case x < 5:
				ops = append(ops, fmt.Sprintf("l hs %d", r.Intn(nsess)))
			case x < 6:
				ops = append(ops, fmt.Sprintf("l drop %d", r.Intn(nsess)))
			case x < 9:
				lepoch++
				ops = append(ops, fmt.Sprintf("l hot %d", lepoch))
			case x < 15:
				e := lepoch
				if r.Intn(5) == 0 {
					e = r.Intn(lepoch + 2)
				}
				ops = append(ops, fmt.Sprintf("l ack %d %d", r.Intn(nsess), e))
			case x < 19:
				ops = append(ops, "l tick")
			default:
				ops = append(ops, "l timeout")
			}
			continue
		}
		if np == 0 {
			np = 1 + r.Intn(3)
			nobj = np
			ops = append(ops, fmt.Sprintf("m init %d", np))
			continue
		}
		conn := 1
		if r.Intn(5) == 0 {
			conn = 0
		}
		switch x := r.Intn(24); {
		case x < 6:
			if !inCycle {
				mepoch++ // a hand-over announces a fresh epoch
				inCycle = true
				swapped = map[int]bool{}
			}
			e := mepoch
			if r.Intn(8) == 0 {
				e = 1000 + i // a foreign epoch (never announced again)
			}
			id := r.Intn(np)
			ops = append(ops, fmt.Sprintf("m hot %d %d %d", id, e, conn))
			if e == mepoch && conn == 1 {
				swapped[id] = true
			}
			nobj++
		case x < 10:
			ops = append(ops, "m tick")
			if inCycle && len(swapped) == np {
				inCycle = false
			}
		case x < 11:
			ops = append(ops, "m timeout")
			inCycle = false
		case x < 14:
			ops = append(ops, fmt.Sprintf("m lose %d", r.Intn(nobj)))
		case x < 22:
			fire := 0
			if r.Intn(2) == 0 {
				fire = 1
			}
			ops = append(ops, fmt.Sprintf("m w %d %d %d", r.Intn(np), fire, conn))
		case x < 23:
			ops = append(ops, "m cancel")
			for id := 0; id < np; id++ {
				for k := r.Intn(4); k > 0; k-- {
					ops = append(ops, fmt.Sprintf("m w %d 0 0", id))
				}
			}
		default:
			ops = append(ops, "m close")
		}
	}
	return ops
}
