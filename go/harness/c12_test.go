//go:build verif

package shmipc

// C12: session establishment on real sockets. The real newSession (client and / or server) runs over a unix socketpair
// against either the real other end or a scripted peer that speaks the wire format, sends a prefix of the other end's
// messages and then closes the connection or falls silent. Line protocol (shared with ShmVerif/Drv/C12.lean):
//   pair <file|memfd>                     both real ends
//   srv <eof|silent> <msg>...             real server, scripted client
//   cli <file|memfd> <eof|silent> <msg>...  real client, scripted server
//   msg = exver:<v> | mfile:<v>:<good> | mmemfd:<v> | ackfd | fds:<good> | ackshm | other:<ty>:<v>
// Output: the result class and negotiated version of each real end, what it wrote, whether both mapped the same memory.

import (
	"encoding/binary"
	"fmt"
	"io"
	"math/rand"
	"net"
	"os"
	"runtime"
	"strconv"
	"strings"
	"sync"
	"sync/atomic"
	"time"

	syscall "golang.org/x/sys/unix"
)

func init() {
	vProps["C12"] = &vProp{model: "c12", quickN: 60, thoroughN: 600, gen: c12Gen, exec: c12Exec}
}

var c12Seq uint64
var c12WarmOnce sync.Once

// InitializeTimeout: long wherever the outcome does not depend on it (so that a loaded machine cannot turn a good
// handshake into a timeout); shorter only where the scripted peer stays silent and the timeout IS the expected outcome,
// and even there far above the time the script itself needs (n x 40 ms).
const c12InitTimeout = 5 * time.Second
const c12SilentTimeout = 2000 * time.Millisecond

type c12Run struct {
	prefix string
	base   int // descriptors open before the scenario's connection was created
	gor    int // goroutines alive then
	pre    map[int]bool // the descriptors open then
	fail   string
	key    string
	tags   map[string]bool
}

func (c *c12Run) setFail(key, what string) {
	if c.fail == "" {
		c.fail, c.key = what, key
	}
}

func c12Config(prefix string, mt MemMapType) *Config {
	cfg := DefaultConfig()
	cfg.LogOutput = io.Discard
	cfg.InitializeTimeout = c12InitTimeout
	cfg.ShareMemoryBufferCap = 1 << 20
	cfg.QueueCap = 64
	cfg.ShareMemoryPathPrefix = prefix
	cfg.QueuePath = prefix + "_queue"
	cfg.MemMapType = mt
	return cfg
}

func c12Class(err error) string {
	if err == nil {
		return "ok"
	}
	s := err.Error()
	switch {
	case strings.Contains(s, "init timeout"):
		return "timeout"
	case strings.Contains(s, "not support the protocol version"):
		return "version"
	case strings.Contains(s, "expect"):
		return "proto"
	case strings.Contains(s, "EOF"), strings.Contains(s, "reset by peer"), strings.Contains(s, "broken pipe"):
		return "eof"
	}
	return "mapping"
}

// socketpair: a net.Conn for the real end, a raw fd for the other
func c12SocketPair() (net.Conn, int, error) {
	fds, err := syscall.Socketpair(syscall.AF_UNIX, syscall.SOCK_STREAM|syscall.SOCK_CLOEXEC, 0)
	if err != nil {
		return nil, -1, err
	}
	f := os.NewFile(uintptr(fds[0]), "verif-sp")
	conn, err := net.FileConn(f)
	f.Close()
	if err != nil {
		syscall.Close(fds[1])
		return nil, -1, err
	}
	return conn, fds[1], nil
}

// c12FdSet: the descriptors open now
func c12FdSet() map[int]bool {
	m := map[int]bool{}
	ents, _ := os.ReadDir("/proc/self/fd")
	for _, e := range ents {
		m[vAtoi(e.Name())] = true
	}
	return m
}

// c12OutQ: bytes the scripted peer wrote that the real end has not read yet
func c12OutQ(fd int) int {
	v, err := syscall.IoctlGetInt(fd, syscall.TIOCOUTQ)
	if err != nil {
		return 0
	}
	return v
}

// c12RealBlocked: some thread of this process sits in read(2) / recvmsg(2) on a descriptor that was opened after `pre`
// was taken and is not the scripted peer's: the real end has handled everything it was sent and waits for more
func c12RealBlocked(pre map[int]bool, raw int) bool {
	ents, _ := os.ReadDir("/proc/self/task")
	for _, e := range ents {
		b, err := os.ReadFile("/proc/self/task/" + e.Name() + "/syscall")
		if err != nil {
			continue
		}
		f := strings.Fields(string(b))
		if len(f) < 2 || (f[0] != "0" && f[0] != "47") {
			continue
		}
		fd, err := strconv.ParseInt(strings.TrimPrefix(f[1], "0x"), 16, 64)
		if err != nil || int(fd) == raw || pre[int(fd)] {
			continue
		}
		return true
	}
	return false
}

func c12CountFds() int {
	ents, err := os.ReadDir("/proc/self/fd")
	if err != nil {
		return -1
	}
	return len(ents)
}

func c12CountMaps(prefix string) int {
	b, _ := os.ReadFile("/proc/self/maps")
	n := 0
	base := prefix[strings.LastIndex(prefix, "/")+1:]
	for _, l := range strings.Split(string(b), "\n") {
		if strings.Contains(l, base) {
			n++
		}
	}
	return n
}

func c12CountFiles(prefix string) int {
	dir := prefix[:strings.LastIndex(prefix, "/")]
	base := prefix[strings.LastIndex(prefix, "/")+1:]
	ents, _ := os.ReadDir(dir)
	n := 0
	for _, e := range ents {
		if strings.HasPrefix(e.Name(), base) {
			n++
		}
	}
	return n
}

// ---- the scripted peer ----

type c12Fake struct {
	fd    int
	buf   []byte
	msgs  []string // what the real end wrote, parsed
	gotFd []int
}

func (f *c12Fake) pump(wait time.Duration) bool {
	deadline := time.Now().Add(wait)
	any := false
	for {
		ms := int(time.Until(deadline) / time.Millisecond)
		if ms < 0 {
			ms = 0
		}
		pfd := []syscall.PollFd{{Fd: int32(f.fd), Events: syscall.POLLIN}}
		n, err := syscall.Poll(pfd, ms)
		if err == syscall.EINTR {
			continue
		}
		if n <= 0 {
			return any
		}
		p := make([]byte, 4096)
		oob := make([]byte, syscall.CmsgSpace(8))
		rn, oobn, _, _, err := syscall.Recvmsg(f.fd, p, oob, syscall.MSG_DONTWAIT)
		if err != nil || (rn == 0 && oobn == 0) {
			return any
		}
		any = true
		data := p[:rn]
		gotFds := false
		if oobn > 0 {
			if cms, err := syscall.ParseSocketControlMessage(oob[:oobn]); err == nil && len(cms) > 0 {
				if fds, err := syscall.ParseUnixRights(&cms[0]); err == nil {
					f.gotFd = append(f.gotFd, fds...)
					gotFds = true
					if len(data) > 0 {
						// the dummy byte that carries the descriptors is the LAST byte of this read: the kernel may hand
						// over earlier, not yet read messages in the same call, but never anything behind the descriptors
						data = data[:len(data)-1]
					}
				}
			}
		}
		f.buf = append(f.buf, data...)
		f.parse()
		if gotFds {
			f.msgs = append(f.msgs, "fds:1")
		}
		deadline = time.Now().Add(10 * time.Millisecond) // drain what follows immediately
	}
}

func (f *c12Fake) parse() {
	for len(f.buf) >= headerSize {
		h := header(f.buf[:headerSize])
		l := int(h.Length())
		if l < headerSize || len(f.buf) < l {
			return
		}
		switch h.MsgType() {
		case typeExchangeProtoVersion:
			f.msgs = append(f.msgs, fmt.Sprintf("exver:%d", h.Version()))
		case typeShareMemoryByFilePath:
			f.msgs = append(f.msgs, fmt.Sprintf("mfile:%d:1", h.Version()))
		case typeShareMemoryByMemfd:
			f.msgs = append(f.msgs, fmt.Sprintf("mmemfd:%d", h.Version()))
		case typeAckReadyRecvFD:
			f.msgs = append(f.msgs, "ackfd")
		case typeAckShareMemory:
			f.msgs = append(f.msgs, "ackshm")
		default:
			f.msgs = append(f.msgs, fmt.Sprintf("other:%d:%d", h.MsgType(), h.Version()))
		}
		f.buf = f.buf[l:]
	}
}

// resources a scripted client owns (the memory it offers)
type c12Owned struct {
	bm *bufferManager
	qm *queueManager
}

func (o *c12Owned) release() {
	if o.bm != nil {
		addGlobalBufferManagerRefCount(o.bm.path, -1)
		o.bm = nil
	}
	if o.qm != nil {
		o.qm.unmap()
		o.qm = nil
	}
}

func (c *c12Run) ownMemory(mt MemMapType, own *c12Owned) error {
	if own.bm != nil {
		return nil
	}
	cfg := c12Config(c.prefix+"_fk", mt)
	var err error
	if mt == MemMapTypeDevShmFile {
		if own.bm, err = getGlobalBufferManager(cfg.ShareMemoryPathPrefix+bufferPathSuffix, cfg.ShareMemoryBufferCap, true, cfg.BufferSliceSizes); err != nil {
			return err
		}
		own.qm, err = createQueueManager(cfg.QueuePath, cfg.QueueCap)
	} else {
		if own.bm, err = getGlobalBufferManagerWithMemFd(cfg.ShareMemoryPathPrefix+bufferPathSuffix, 0, cfg.ShareMemoryBufferCap, true, cfg.BufferSliceSizes); err != nil {
			return err
		}
		own.qm, err = createQueueManagerWithMemFd(cfg.QueuePath, cfg.QueueCap)
	}
	return err
}

// send one scripted message
func (c *c12Run) fakeSend(fd int, m string, own *c12Owned) error {
	f := strings.Split(m, ":")
	hdr := func(v int, ty eventType) error {
		h := header(make([]byte, headerSize))
		h.encode(headerSize, uint8(v), ty)
		return blockWriteFull(fd, h)
	}
	switch f[0] {
	case "part":
		// only the first k bytes of an event header arrive; the rest never does
		h := header(make([]byte, headerSize))
		h.encode(headerSize, 3, typeExchangeProtoVersion)
		k := vAtoi(f[1])
		if k < 1 || k >= headerSize {
			return fmt.Errorf("bad message %q", m)
		}
		return blockWriteFull(fd, h[:k])
	case "partb":
		// the header of a metadata message arrives, its body only in part
		tmp := &Session{communicationVersion: 3, queueManager: &queueManager{path: c.prefix + "_q"}, bufferManager: &bufferManager{path: c.prefix + "_b"}}
		data := tmp.generateShmMetadata(typeShareMemoryByFilePath)
		k := vAtoi(f[1])
		if k < 0 || headerSize+k >= len(data) {
			return fmt.Errorf("bad message %q", m)
		}
		return blockWriteFull(fd, data[:headerSize+k])
	case "exver":
		return hdr(vAtoi(f[1]), typeExchangeProtoVersion)
	case "ackfd":
		return hdr(3, typeAckReadyRecvFD)
	case "ackshm":
		return hdr(3, typeAckShareMemory)
	case "other":
		return hdr(vAtoi(f[2]), eventType(vAtoi(f[1])))
	case "mmemfdx":
		// memfd metadata naming a buffer that is not known in this process (the descriptors decide what gets mapped)
		v := vAtoi(f[1])
		if err := c.ownMemory(MemMapTypeMemFd, own); err != nil {
			return err
		}
		tmp := &Session{communicationVersion: uint8(v), queueManager: own.qm, bufferManager: &bufferManager{path: c.prefix + "_unknown_buffer"}}
		return blockWriteFull(fd, tmp.generateShmMetadata(typeShareMemoryByMemfd))
	case "mfile", "mmemfd":
		v := vAtoi(f[1])
		var data []byte
		if f[0] == "mfile" && f[2] == "2" {
			// the queue can be mapped, the buffer cannot: what was mapped first must be released again
			if err := c.ownMemory(MemMapTypeDevShmFile, own); err != nil {
				return err
			}
			tmp := &Session{communicationVersion: uint8(v), queueManager: own.qm, bufferManager: &bufferManager{path: c.prefix + "_nosuch_buffer"}}
			data = tmp.generateShmMetadata(typeShareMemoryByFilePath)
		} else if f[0] == "mfile" && f[2] == "0" {
			tmp := &Session{communicationVersion: uint8(v), queueManager: &queueManager{path: c.prefix + "_nosuch_queue"}, bufferManager: &bufferManager{path: c.prefix + "_nosuch_buffer"}}
			data = tmp.generateShmMetadata(typeShareMemoryByFilePath)
		} else {
			mt := MemMapTypeDevShmFile
			ty := typeShareMemoryByFilePath
			if f[0] == "mmemfd" {
				mt, ty = MemMapTypeMemFd, typeShareMemoryByMemfd
			}
			if err := c.ownMemory(mt, own); err != nil {
				return err
			}
			tmp := &Session{communicationVersion: uint8(v), queueManager: own.qm, bufferManager: own.bm}
			data = tmp.generateShmMetadata(ty)
		}
		return blockWriteFull(fd, data)
	case "fds":
		if f[1] == "1" {
			if err := c.ownMemory(MemMapTypeMemFd, own); err != nil {
				return err
			}
			return sendFd(fd, syscall.UnixRights(own.bm.memFd, own.qm.memFd))
		}
		if f[1] == "2" {
			// a mappable queue descriptor and an unmappable buffer descriptor
			if err := c.ownMemory(MemMapTypeMemFd, own); err != nil {
				return err
			}
			nb, _ := syscall.Open("/dev/null", syscall.O_RDWR, 0)
			err := sendFd(fd, syscall.UnixRights(nb, own.qm.memFd))
			syscall.Close(nb)
			return err
		}
		if f[1] == "3" {
			// a mappable queue descriptor and a buffer descriptor that CAN be mapped but was never laid out (zeros): the
			// mapping succeeds, mappingBufferManager refuses the content
			if err := c.ownMemory(MemMapTypeMemFd, own); err != nil {
				return err
			}
			zb, err := MemfdCreate(c.prefix+"_blank_buffer", 0)
			if err != nil {
				return err
			}
			syscall.Ftruncate(zb, 1<<20)
			err = sendFd(fd, syscall.UnixRights(zb, own.qm.memFd))
			syscall.Close(zb)
			return err
		}
		n1, _ := syscall.Open("/dev/null", syscall.O_RDWR, 0)
		n2, _ := syscall.Open("/dev/null", syscall.O_RDWR, 0)
		err := sendFd(fd, syscall.UnixRights(n1, n2))
		syscall.Close(n1)
		syscall.Close(n2)
		return err
	}
	return fmt.Errorf("bad message %q", m)
}

type c12Res struct {
	sess *Session
	err  error
}

// runReal starts newSession on conn; the result arrives on the channel
func c12Start(cfg *Config, conn net.Conn, isClient bool) chan c12Res {
	ch := make(chan c12Res, 1)
	go func() {
		s, err := newSession(cfg, conn, isClient)
		ch <- c12Res{s, err}
	}()
	return ch
}

func c12Wait(ch chan c12Res, d time.Duration) (c12Res, bool) {
	select {
	case r := <-ch:
		return r, true
	case <-time.After(d):
		return c12Res{}, false
	}
}

func c12Show(role string, r c12Res) string {
	if r.err != nil || r.sess == nil {
		return fmt.Sprintf("%s=%s", role, c12Class(r.err))
	}
	return fmt.Sprintf("%s=ok:%d", role, r.sess.communicationVersion)
}

func c12CloseSession(s *Session) {
	if s == nil {
		return
	}
	s.Close()
	// the clean-up is posted to the event loop, which runs posted work at the latest one second later when idle
	for t0 := time.Now(); time.Since(t0) < 6*time.Second && s.queueManager != nil; {
		time.Sleep(500 * time.Microsecond)
	}
	time.Sleep(2 * time.Millisecond)
}

func (c *c12Run) scenario(f []string) string {
	n := atomic.AddUint64(&c12Seq, 1)
	c.prefix = fmt.Sprintf("/dev/shm/verif_c12_%d_%d", os.Getpid(), n)
	runtime.GC()
	fd0, maps0 := c12CountFds(), c12CountMaps(c.prefix)
	out := c.run(f)
	// S (C12): whatever happened, nothing is left behind once the sessions are closed
	for t0 := time.Now(); time.Since(t0) < 6*time.Second; {
		runtime.GC()
		if c12CountFds() <= fd0 && c12CountMaps(c.prefix) <= maps0 && c12CountFiles(c.prefix) == 0 {
			break
		}
		time.Sleep(2 * time.Millisecond)
	}
	if fd1, m1, fl := c12CountFds(), c12CountMaps(c.prefix), c12CountFiles(c.prefix); fd1 > fd0 || m1 > maps0 || fl > 0 {
		c.setFail("handshake-leaves-resources", fmt.Sprintf("%s: after the exchange (%s) and closing every session: %d descriptor(s) more than before, %d mapping(s) and %d file(s) with this session's prefix left", strings.Join(f, " "), out, fd1-fd0, m1-maps0, fl))
	}
	return out
}

// a truncated metadata body is only meaningful where the server is about to read a metadata message (after the version exchange)
func c12BadPart(f []string) bool {
	for i, w := range f {
		if strings.HasPrefix(w, "partb:") && !(f[0] == "srv" && i == 3 && f[2] == "exver:3") {
			return true
		}
		if strings.HasPrefix(w, "part") && f[0] == "srv" && f[1] == "deaf" {
			return true
		}
	}
	return false
}

func (c *c12Run) run(f []string) string {
	switch {
	case c12BadPart(f):
		return "bad-op"
	case len(f) == 2 && f[0] == "pair" && (f[1] == "file" || f[1] == "memfd"):
		mt := MemMapTypeDevShmFile
		if f[1] == "memfd" {
			mt = MemMapTypeMemFd
		}
		fds, err := syscall.Socketpair(syscall.AF_UNIX, syscall.SOCK_STREAM|syscall.SOCK_CLOEXEC, 0)
		if err != nil {
			return "bad-op"
		}
		f0, f1 := os.NewFile(uintptr(fds[0]), "a"), os.NewFile(uintptr(fds[1]), "b")
		ca, _ := net.FileConn(f0)
		cb, _ := net.FileConn(f1)
		f0.Close()
		f1.Close()
		chC := c12Start(c12Config(c.prefix, mt), ca, true)
		chS := c12Start(c12Config(c.prefix+"_srv", mt), cb, false)
		rc, okc := c12Wait(chC, 8*time.Second)
		rs, oks := c12Wait(chS, 8*time.Second)
		if !okc || !oks {
			c.setFail("handshake-hangs", "newSession did not return within 8 s (InitializeTimeout is 5 s)")
			return "hang"
		}
		same := 0
		if rc.sess != nil && rs.sess != nil {
			// both ends map the very same queue memory: a byte written through one mapping is seen through the other
			mc, ms := rc.sess.queueManager.mem, rs.sess.queueManager.mem
			if len(mc) == len(ms) && len(mc) > 0 && rc.sess.bufferManager.path == rs.sess.bufferManager.path {
				off := len(mc) - 1
				old := mc[off]
				mc[off] = old ^ 0x5a
				if ms[off] == old^0x5a && &mc[0] != &ms[0] {
					same = 1
				}
				mc[off] = old
			}
			c.tags["both-ok-"+f[1]] = true
		}
		out := fmt.Sprintf("%s %s same=%d", c12Show("c", rc), c12Show("s", rs), same)
		c12CloseSession(rc.sess)
		c12CloseSession(rs.sess)
		return out
	case len(f) == 2 && f[0] == "cliq" && f[1] == "file":
		// the client's queue file already exists (a lost session of the same id has not been cleaned up yet, a stale file,
		// ...): newSession fails after it has obtained the shared buffer manager; that reference must be given back
		conn, raw, err := c12SocketPair()
		if err != nil {
			return "bad-op"
		}
		defer syscall.Close(raw)
		cfg := c12Config(c.prefix, MemMapTypeDevShmFile)
		os.WriteFile(cfg.QueuePath, []byte("x"), 0o644)
		s, err := newSession(cfg, conn, true)
		if err == nil {
			c12CloseSession(s)
			c.setFail("queue-exists-accepted", "newSession succeeded although its queue file already existed")
			return "c=ok sent="
		}
		conn.Close()
		c.tags["client-queue-exists"] = true
		return "c=init-error sent="

	case len(f) >= 2 && f[0] == "srv" && (f[1] == "eof" || f[1] == "silent" || f[1] == "deaf"):
		c.base, c.gor, c.pre = c12CountFds(), runtime.NumGoroutine(), c12FdSet()
		conn, raw, err := c12SocketPair()
		if err != nil {
			return "bad-op"
		}
		own := &c12Owned{}
		fk := &c12Fake{fd: raw}
		cfgS := c12Config(c.prefix, MemMapTypeMemFd)
		if f[1] == "silent" {
			cfgS.InitializeTimeout = c12SilentTimeout
		}
		ch := c12Start(cfgS, conn, false)
		out := c.drive(fk, ch, f[2:], f[1], own, "s")
		return out
	case len(f) >= 3 && f[0] == "cli" && (f[1] == "file" || f[1] == "memfd") && (f[2] == "eof" || f[2] == "silent"):
		mt := MemMapTypeDevShmFile
		if f[1] == "memfd" {
			mt = MemMapTypeMemFd
		}
		c.base, c.gor, c.pre = c12CountFds(), runtime.NumGoroutine(), c12FdSet()
		conn, raw, err := c12SocketPair()
		if err != nil {
			return "bad-op"
		}
		own := &c12Owned{}
		fk := &c12Fake{fd: raw}
		cfgC := c12Config(c.prefix, mt)
		if f[2] == "silent" {
			cfgC.InitializeTimeout = c12SilentTimeout
		}
		ch := c12Start(cfgC, conn, true)
		return c.drive(fk, ch, f[3:], f[2], own, "c")
	}
	return "bad-op"
}

// drive the scripted peer: for a scripted server first listen, then answer; a scripted client starts talking
func (c *c12Run) drive(fk *c12Fake, ch chan c12Res, msgs []string, tail string, own *c12Owned, role string) string {
	defer own.release()
	var res c12Res
	done := false
	poll := func(d time.Duration) {
		fk.pump(d)
		if !done {
			select {
			case res = <-ch:
				done = true
			default:
			}
		}
	}
	// settle: wait until the real end has read everything it was sent and sits in its next blocking read (or has
	// returned), then collect what it replied. A fixed pause here made the outcome depend on the load of the machine.
	settle := func() {
		if runtime.GOARCH != "amd64" || c.pre == nil {
			poll(40 * time.Millisecond)
			return
		}
		for t0 := time.Now(); time.Since(t0) < 4*time.Second && !done; {
			poll(2 * time.Millisecond)
			if !done && c12OutQ(fk.fd) == 0 && c12RealBlocked(c.pre, fk.fd) {
				break
			}
		}
		poll(3 * time.Millisecond)
	}
	if role == "c" {
		settle()
	}
	if tail == "deaf" && len(msgs) == 0 {
		syscall.Shutdown(fk.fd, syscall.SHUT_RD)
	}
	for i, m := range msgs {
		if done {
			break
		}
		if tail == "deaf" && i == len(msgs)-1 {
			// the peer stops receiving just before its last message: the real end's reply to it cannot be written (EPIPE)
			syscall.Shutdown(fk.fd, syscall.SHUT_RD)
			c.tags["peer-deaf"] = true
		}
		if err := c.fakeSend(fk.fd, m, own); err != nil {
			break
		}
		settle()
	}
	if tail == "eof" || tail == "deaf" {
		poll(20 * time.Millisecond)
		syscall.Shutdown(fk.fd, syscall.SHUT_WR)
		c.tags["peer-closes"] = true
	} else {
		c.tags["peer-silent"] = true
	}
	if !done {
		limit := c12InitTimeout
		if tail == "silent" {
			limit = c12SilentTimeout
		}
		r, ok := c12Wait(ch, limit+2*time.Second)
		if !ok {
			c.setFail("handshake-hangs", fmt.Sprintf("newSession (%s) did not return within %v of its InitializeTimeout (%v)", role, 2*time.Second, limit))
			syscall.Close(fk.fd)
			return role + "=hang"
		}
		res, done = r, true
	}
	fk.pump(20 * time.Millisecond)
	if res.err != nil && tail == "silent" && c12Class(res.err) == "timeout" {
		// S (C12): a failed establishment leaves no descriptor behind, even while the peer keeps its end open
		for i := 0; i < 50; i++ {
			runtime.GC()
			time.Sleep(time.Millisecond)
		}
		// the real end held two descriptors of the connection (net.Conn + its dup); both must be gone: what remains is
		// the scripted peer's end, the descriptors it received, and the memory it owns
		extra := 1 + len(fk.gotFd)
		if own.bm != nil && own.bm.memFd > 0 {
			extra++
		}
		if own.qm != nil && own.qm.memFd > 0 {
			extra++
		}
		// ... and the goroutine that ran the exchange has ended (it sat in a blocking read on the connection)
		if g := runtime.NumGoroutine(); g > c.gor {
			buf := make([]byte, 1<<16)
			n := runtime.Stack(buf, true)
			where := ""
			for _, blk := range strings.Split(string(buf[:n]), "\n\n") {
				if strings.Contains(blk, "blockRead") || strings.Contains(blk, "initProtocol") {
					where = strings.Split(blk, "\n")[0]
				}
			}
			if where != "" {
				c.setFail("handshake-timeout-leaks-goroutine", fmt.Sprintf("newSession (%s) returned %q; the peer keeps its end open; the handshake goroutine is still alive, blocked in a read on the connection (%s): it and its OS thread stay until the peer closes", role, res.err.Error(), where))
			}
		}
		if now := c12CountFds(); now > c.base+extra {
			c.setFail("handshake-timeout-leaks-descriptor", fmt.Sprintf("newSession (%s) returned %q; the peer still holds its end open; %d descriptor(s) the failed session held on the connection are still open (the handshake goroutine is still blocked reading)", role, res.err.Error(), now-(c.base+extra)))
		}
	}
	if role == "c" && res.sess != nil {
		acked := false
		for _, m := range msgs {
			if m == "ackshm" {
				acked = true
			}
		}
		if !acked {
			// S (C12): establishment succeeds on both ends or fails on both ends
			c.setFail("v2-client-succeeds-alone", fmt.Sprintf("the client's newSession succeeded (version %d) although the server never confirmed that it mapped the memory (it %s): the file-mapping exchange of version 2 has no reply", res.sess.communicationVersion, map[string]string{"eof": "closed the connection", "silent": "never answered"}[tail]))
		}
	}
	out := fmt.Sprintf("%s sent=%s", c12Show(role, res), strings.Join(fk.msgs, ","))
	if res.sess != nil {
		c.tags["real-end-ok"] = true
	} else {
		c.tags["real-end-"+c12Class(res.err)] = true
	}
	c12CloseSession(res.sess)
	syscall.Close(fk.fd)
	for _, d := range fk.gotFd {
		syscall.Close(d)
	}
	return out
}

func c12Exec(ops []string) vResult {
	c := &c12Run{tags: map[string]bool{}}
	internalLogger = &logger{"", io.Discard, 3}
	c12WarmOnce.Do(func() {
		// the first session of a process creates the epoll dispatcher and its descriptors: not part of any measurement
		w := &c12Run{tags: map[string]bool{}}
		w.scenario([]string{"pair", "file"})
		w.scenario([]string{"pair", "memfd"})
	})
	var out []string
	for _, op := range ops {
		f := vFields(op)
		if len(f) == 0 {
			out = append(out, "bad-op")
			continue
		}
		out = append(out, c.scenario(f))
	}
	var tags []string
	for t := range c.tags {
		tags = append(tags, t)
	}
	return vResult{out: out, specFail: c.fail, key: c.key, tags: tags}
}

var _ = binary.BigEndian

func c12Gen(r *rand.Rand, tier string, idx int) []string {
	// the honest message sequences
	clientMemfd := []string{"exver:3", "mmemfd:3", "fds:1"}
	serverMemfd := []string{"exver:3", "ackfd", "ackshm"}
	tail := func() string {
		if r.Intn(3) == 0 {
			return "silent"
		}
		return "eof"
	}
	mutate := func(ms []string) []string {
		ms = append([]string{}, ms...)
		k := r.Intn(len(ms) + 1)
		ms = ms[:k] // the peer stops after k messages
		if r.Intn(3) == 0 && len(ms) > 0 {
			alt := []string{"exver:2", "exver:3", "exver:4", "mfile:2:1", "mfile:2:0", "mfile:2:2", "mfile:3:1", "mfile:3:0", "mfile:3:2", "mmemfd:3", "ackfd", "ackshm", "fds:0", "fds:2", "fds:3", "other:1:3", "other:2:2", "other:9:5"}
			a := alt[r.Intn(len(alt))]
			// descriptors travel without a header: only where the server is about to receive them
			if !strings.HasPrefix(a, "fds:") || (len(ms) == 3 && ms[0] == "exver:3" && ms[1] == "mmemfd:3") {
				ms[len(ms)-1] = a
				if a == "fds:2" || a == "fds:3" {
					// a buffer path that is registered in this process' global table would be "mapped" from the table
					// whatever the descriptor is (an artefact of running both ends in one process): name an unknown buffer
					ms[1] = "mmemfdx:3"
				}
			}
		}
		return ms
	}
	if r.Intn(12) == 0 {
		return []string{"srv " + tail() + " exver:3 mmemfdx:3 fds:" + []string{"2", "3"}[r.Intn(2)]}
	}
	if r.Intn(9) == 0 {
		// a message that arrives only in part (then the peer stalls or closes): the reader must still end with the tail's outcome
		pre := [][]string{{}, {"exver:3"}, {"exver:3", "mmemfd:3"}}[r.Intn(3)]
		cut := fmt.Sprintf("part:%d", 1+r.Intn(7))
		if r.Intn(2) == 0 {
			pre, cut = []string{"exver:3"}, fmt.Sprintf("partb:%d", r.Intn(6))
		}
		if r.Intn(3) == 0 {
			spre := [][]string{{}, {"exver:3"}, {"exver:3", "ackfd"}}[r.Intn(3)]
			return []string{strings.TrimSpace("cli memfd " + tail() + " " + strings.Join(append(spre, fmt.Sprintf("part:%d", 1+r.Intn(7))), " "))}
		}
		return []string{strings.TrimSpace("srv " + tail() + " " + strings.Join(append(pre, cut), " "))}
	}
	if r.Intn(10) == 0 {
		// the client hands over its memory and stops receiving (dies) before the server's acknowledgement
		return []string{[]string{"srv deaf exver:3 mmemfd:3 fds:1", "srv deaf exver:3 mfile:3:1", "srv deaf exver:3 mmemfd:3", "srv deaf exver:3",
			strings.TrimSpace("srv deaf " + strings.Join(mutate(clientMemfd), " "))}[r.Intn(5)]}
	}
	if r.Intn(25) == 0 {
		return []string{"cliq file"}
	}
	switch r.Intn(8) {
	case 0:
		return []string{"pair file"}
	case 1:
		return []string{"pair memfd"}
	case 2:
		return []string{"srv " + tail() + " " + strings.Join(mutate([]string{"mfile:2:1"}), " ")}
	case 3, 4:
		return []string{strings.TrimSpace("srv " + tail() + " " + strings.Join(mutate(clientMemfd), " "))}
	case 5:
		return []string{strings.TrimSpace("cli file " + tail() + " " + strings.Join(mutate(serverMemfd), " "))}
	default:
		return []string{strings.TrimSpace("cli memfd " + tail() + " " + strings.Join(mutate(serverMemfd), " "))}
	}
}
