//go:build verif

package shmipc

// Controlled scheduler + the pass-through helpers the instrumented sources call.
// One logical thread runs at a time (baton passing); a "step" = grant the baton to thread t,
// which executes exactly one shared-memory access (the one guarded by the yield it was parked at)
// plus local computation up to its next yield.

import (
	"fmt"
	"runtime"
	"sync"
	"sync/atomic"
	"time"
	"unsafe"

	"github.com/bytedance/gopkg/util/gopool"
	syscall "golang.org/x/sys/unix"
)

type vThread struct {
	id     int
	grant  chan struct{}
	parked chan string
	site   string // yield site it is parked at ("" before first run, "done" when finished)
	done   bool
	panicV interface{}
	goid   uint64
}

type vScheduler struct {
	threads []*vThread
	cur     *vThread
	spawned []func() // functions handed to vGo, turned into threads by the driver
	filter  func(site string) bool // optional: which yield sites are scheduling points (nil = all)
	checkGoid bool                  // set when free-running goroutines may call instrumented code concurrently
}

// vGoid: id of the calling goroutine (parsed from runtime.Stack; only used when checkGoid is set)
func vGoid() uint64 {
	var buf [64]byte
	n := runtime.Stack(buf[:], false)
	// "goroutine 123 [running]:"
	var id uint64
	for _, ch := range buf[10:n] {
		if ch < '0' || ch > '9' {
			break
		}
		id = id*10 + uint64(ch-'0')
	}
	return id
}

var vS *vScheduler

func vYield(site string) {
	s := vS
	if s == nil {
		return
	}
	t := s.cur
	if t == nil {
		return
	}
	if s.filter != nil && !s.filter(site) {
		return
	}
	if s.checkGoid && vGoid() != t.goid {
		return // a free-running goroutine (send loop, timers): not a scheduled thread
	}
	t.parked <- site
	<-t.grant
}

// newThread registers a logical thread running f; it does not start before its first grant.
func (s *vScheduler) newThread(f func()) *vThread {
	t := &vThread{id: len(s.threads), grant: make(chan struct{}), parked: make(chan string)}
	s.threads = append(s.threads, t)
	go func() {
		t.goid = vGoid()
		<-t.grant
		defer func() {
			if r := recover(); r != nil {
				t.panicV = r
			}
			t.parked <- "done"
		}()
		f()
	}()
	t.site = "start"
	return t
}

// step grants thread t one step; returns the site it parks at next ("done" if it finished).
func (s *vScheduler) step(t *vThread) string {
	if t.done {
		return "done"
	}
	s.cur = t
	t.grant <- struct{}{}
	site := <-t.parked
	s.cur = nil
	t.site = site
	if site == "done" {
		t.done = true
	}
	return site
}

func (s *vScheduler) allDone() bool {
	for _, t := range s.threads {
		if !t.done {
			return false
		}
	}
	return true
}

// finish runs every unfinished thread to completion, round-robin free (lowest id first), with a step budget.
func (s *vScheduler) finish(budget int) bool {
	for i := 0; i < budget; i++ {
		var t *vThread
		for _, c := range s.threads {
			if !c.done {
				t = c
				break
			}
		}
		if t == nil {
			return true
		}
		s.step(t)
	}
	return s.allDone()
}

func vGo(f func()) {
	s := vS
	if s == nil {
		gopool.Go(f)
		return
	}
	s.spawned = append(s.spawned, f)
}

var _ = gopool.Go

func vLock(m *sync.Mutex) {
	if vS == nil || vS.cur == nil {
		m.Lock()
		return
	}
	for {
		vYield("lock")
		if m.TryLock() {
			return
		}
	}
}

func vUnlock(m *sync.Mutex) {
	if vS != nil && vS.cur != nil {
		vYield("unlock")
	}
	m.Unlock()
}

func vPlainLoadI32(site string, p *int32) int32 {
	vYield(site)
	return *p
}

func vAtomicLoadUint32(site string, p *uint32) uint32 { vYield(site); return atomic.LoadUint32(p) }
func vAtomicLoadInt32(site string, p *int32) int32    { vYield(site); return atomic.LoadInt32(p) }
func vAtomicLoadInt64(site string, p *int64) int64    { vYield(site); return atomic.LoadInt64(p) }
func vAtomicStoreUint32(site string, p *uint32, v uint32) {
	vYield(site)
	atomic.StoreUint32(p, v)
}
func vAtomicAddInt32(site string, p *int32, d int32) int32 { vYield(site); return atomic.AddInt32(p, d) }
func vAtomicAddInt64(site string, p *int64, d int64) int64 { vYield(site); return atomic.AddInt64(p, d) }
func vAtomicAddUint32(site string, p *uint32, d uint32) uint32 {
	vYield(site)
	return atomic.AddUint32(p, d)
}
func vAtomicCompareAndSwapUint32(site string, p *uint32, o, n uint32) bool {
	vYield(site)
	return atomic.CompareAndSwapUint32(p, o, n)
}
func vAtomicStorePointer(site string, p *unsafe.Pointer, v unsafe.Pointer) {
	atomic.StorePointer(p, v)
}
func vAtomicLoadPointer(site string, p *unsafe.Pointer) unsafe.Pointer {
	return atomic.LoadPointer(p)
}

var _ = fmt.Sprintf

// ---- shim for the three raw IO syscalls of event_dispatcher_linux.go (instrumenter rule R7) ----
// With no script installed the real syscall is performed. With a script the kernel is simulated: reads are served from
// `rstream`, writes are accepted into `wout`, each call capped by / answered with the scripted result.

type vSysScriptT struct {
	reads   []int  // per read call: -1 = EAGAIN, 0 = EOF, k>0 = deliver at most k bytes
	rstream []byte // bytes still to be delivered by reads
	writes  []int  // per write/writev call: -1 = EAGAIN, -2 = EAGAIN whose wake-up comes merged with a read event, k>=0 accept at most k bytes
	wout    []byte
	calls   int
	onEagainWrite func(kind int)
}

var vSysScript *vSysScriptT

func vSysRead(fd, p, n uintptr) (uintptr, uintptr, syscall.Errno) {
	sc := vSysScript
	if sc == nil {
		return syscall.RawSyscall(syscall.SYS_READ, fd, p, n)
	}
	if len(sc.reads) == 0 {
		return 0, 0, syscall.EAGAIN
	}
	k := sc.reads[0]
	sc.reads = sc.reads[1:]
	if k < 0 {
		return 0, 0, syscall.EAGAIN
	}
	if uintptr(k) > n {
		k = int(n)
	}
	if k > len(sc.rstream) {
		k = len(sc.rstream)
	}
	dst := unsafe.Slice((*byte)(unsafe.Pointer(p)), k)
	copy(dst, sc.rstream[:k])
	sc.rstream = sc.rstream[k:]
	return uintptr(k), 0, 0
}

func (sc *vSysScriptT) nextWrite() (int, bool) {
	sc.calls++
	if len(sc.writes) == 0 {
		return 0, false
	}
	k := sc.writes[0]
	sc.writes = sc.writes[1:]
	return k, true
}

func vSysWrite(fd, p, n uintptr) (uintptr, uintptr, syscall.Errno) {
	sc := vSysScript
	if sc == nil {
		return syscall.Syscall(syscall.SYS_WRITE, fd, p, n)
	}
	k, ok := sc.nextWrite()
	if !ok {
		sc.calls--
		return 0, 0, syscall.EPIPE // script exhausted: stop the loop
	}
	if k < 0 {
		if sc.onEagainWrite != nil {
			sc.onEagainWrite(k)
		}
		return 0, 0, syscall.EAGAIN
	}
	if uintptr(k) > n {
		k = int(n)
	}
	sc.wout = append(sc.wout, unsafe.Slice((*byte)(unsafe.Pointer(p)), k)...)
	return uintptr(k), 0, 0
}

func vSysWritev(fd, p, n uintptr) (uintptr, uintptr, syscall.Errno) {
	sc := vSysScript
	if sc == nil {
		return syscall.Syscall(syscall.SYS_WRITEV, fd, p, n)
	}
	k, ok := sc.nextWrite()
	if !ok {
		sc.calls--
		return 0, 0, syscall.EPIPE
	}
	if k < 0 {
		if sc.onEagainWrite != nil {
			sc.onEagainWrite(k)
		}
		return 0, 0, syscall.EAGAIN
	}
	iov := unsafe.Slice((*syscall.Iovec)(unsafe.Pointer(p)), int(n))
	left := k
	total := 0
	for _, v := range iov {
		if left == 0 {
			break
		}
		m := int(v.Len)
		if m > left {
			m = left
		}
		if m > 0 {
			sc.wout = append(sc.wout, unsafe.Slice(v.Base, m)...)
		}
		left -= m
		total += m
	}
	return uintptr(total), 0, 0
}

// ---- shim for Stream.asyncGoroutineWg (instrumenter rule R8) ----
// Under the scheduler a blocking Wait() would keep the baton forever; the shadow counter lets the waiter yield instead.
var vWgMu sync.Mutex
var vWgCount = map[*sync.WaitGroup]int{}

func vWgAdd(wg *sync.WaitGroup, n int) {
	vWgMu.Lock()
	vWgCount[wg] += n
	vWgMu.Unlock()
	wg.Add(n)
}

func vWgDone(wg *sync.WaitGroup) {
	vWgMu.Lock()
	vWgCount[wg]--
	if vWgCount[wg] <= 0 {
		delete(vWgCount, wg)
	}
	vWgMu.Unlock()
	wg.Done()
}

func vWgWait(wg *sync.WaitGroup) {
	if vS != nil && vS.cur != nil && (vS.filter == nil || vS.filter("wgwait")) {
		for {
			vWgMu.Lock()
			n := vWgCount[wg]
			vWgMu.Unlock()
			if n <= 0 {
				break
			}
			vYield("wgwait")
		}
	}
	wg.Wait()
}

// ---- shims for the hot-restart checkers and the session-manager watchers (instrumenter rules R9-R12) ----

func vGoInt(f func(int), a int) { vGo(func() { f(a) }) }

// vTimer / vTicker: real timers when no scheduler is installed; otherwise a channel only the harness writes to.
type vTimer struct {
	C     <-chan time.Time
	ch    chan time.Time
	real  *time.Timer
	tick  *time.Ticker
	owner *vThread
	kind  string
	d     time.Duration
	// a time.Timer fires once per NewTimer/Reset and never after Stop; a Ticker fires until stopped
	fired, stopped bool
}

func (t *vTimer) Stop() bool {
	if t.real != nil {
		return t.real.Stop()
	}
	if t.tick != nil {
		t.tick.Stop()
	}
	was := !t.stopped && !(t.kind == "timer" && t.fired)
	t.stopped = true
	return was
}

func (t *vTimer) Reset(d time.Duration) bool {
	if t.real != nil {
		return t.real.Reset(d)
	}
	if t.tick != nil {
		t.tick.Reset(d)
		return true
	}
	was := !t.stopped && !(t.kind == "timer" && t.fired)
	t.fired, t.stopped, t.d = false, false, d
	return was
}

var vTimers []*vTimer // timers created under the scheduler, in creation order

func vNewTimer(d time.Duration) *vTimer {
	if vS == nil || vS.cur == nil {
		r := time.NewTimer(d)
		return &vTimer{C: r.C, real: r}
	}
	ch := make(chan time.Time, 1)
	t := &vTimer{C: ch, ch: ch, owner: vS.cur, kind: "timer", d: d}
	vTimers = append(vTimers, t)
	return t
}

func vNewTicker(d time.Duration) *vTimer {
	if vS == nil || vS.cur == nil {
		r := time.NewTicker(d)
		return &vTimer{C: r.C, tick: r}
	}
	ch := make(chan time.Time, 1)
	t := &vTimer{C: ch, ch: ch, owner: vS.cur, kind: "ticker", d: d}
	vTimers = append(vTimers, t)
	return t
}

// vFire makes the newest timer of the given kind owned by thread th ready (non-blocking).
func vFire(th *vThread, kind string) bool {
	for i := len(vTimers) - 1; i >= 0; i-- {
		t := vTimers[i]
		if t.owner == th && t.kind == kind {
			if t.stopped || (t.kind == "timer" && t.fired) {
				return false // already expired (not Reset) or stopped: the real timer would stay silent
			}
			t.fired = true
			select {
			case t.ch <- time.Now():
			default:
			}
			return true
		}
	}
	return false
}

func vSleep(d time.Duration) {
	if vS == nil || vS.cur == nil {
		time.Sleep(d)
		return
	}
	vYield("sleep")
}

// vRetryGateCh (when set) holds a Flush that found the io queue full before each of its timed retries until it is closed
var vRetryGateCh chan struct{}
var vRetryGateMu sync.Mutex

func vRetryGate() {
	vRetryGateMu.Lock()
	g := vRetryGateCh
	vRetryGateMu.Unlock()
	if g != nil {
		<-g
	}
}

func vSetRetryGate(g chan struct{}) {
	vRetryGateMu.Lock()
	vRetryGateCh = g
	vRetryGateMu.Unlock()
}

// vRegisteredHook runs (when set) right after newSession has registered the connection with the event loop
var vRegisteredHook func(s *Session)

func vRegistered(s *Session) {
	if h := vRegisteredHook; h != nil {
		h(s)
	}
}

// vNewClientSessionHook replaces newClientSession when set (the harness scripts connection success / failure).
var vNewClientSessionHook func(sessionID int, epochID, randID uint64, config *SessionManagerConfig) (*Session, error)

func vNewClientSession(sessionID int, epochID, randID uint64, config *SessionManagerConfig) (*Session, error) {
	if vNewClientSessionHook != nil {
		return vNewClientSessionHook(sessionID, epochID, randID, config)
	}
	return newClientSession(sessionID, epochID, randID, config)
}
