//go:build verif

package shmipc

// C03: layout of the buffer region and of the IO queues; creator vs mapper.
// Line protocol (shared with ShmVerif/Drv/C03.lean):
//   create <memLen> size:percent ...   createBufferManager(pairs as given, mem of memLen bytes, offset 0)
//   map                                 mappingBufferManager on the bytes the creator wrote
//   verify <cap> size:percent ...       VerifyConfig's verdict for (ShareMemoryBufferCap=cap, pairs)
//   queue <cap>                         geometry of both queues as the creator and as the mapper see them
//   qmgr <file|memfd> <cap>             the same through createQueueManager* / mappingQueueManager* (real file / memfd)

import (
	"fmt"
	"math/rand"
	"os"
	"strings"
	"sync/atomic"
	"unsafe"

	syscall "golang.org/x/sys/unix"
)

func init() {
	vProps["C03"] = &vProp{model: "c03", quickN: 260, thoroughN: 2500, gen: c03Gen, exec: c03Exec}
}

func c03Gen(r *rand.Rand, tier string, idx int) []string {
	var ops []string
	if idx%8 == 5 {
		// the real entry points, capacities that are no multiple of the page size, classes that leave little unused
		k := 1 + r.Intn(3)
		left := 100
		var ps []string
		for i := 0; i < k; i++ {
			pc := left
			if i < k-1 {
				pc = 1 + r.Intn(left-(k-1-i))
			}
			left -= pc
			ps = append(ps, fmt.Sprintf("%d:%d", []int{44, 64, 256, 1000, 4076, 4096, 8192, 32768}[r.Intn(8)]+i, pc))
		}
		capacity := (1 << 20) + r.Intn(2<<20)
		if r.Intn(4) == 0 {
			capacity = capacity / 4096 * 4096
		}
		return []string{fmt.Sprintf("bmgr %s %d %s", []string{"file", "memfd"}[r.Intn(2)], capacity, strings.Join(ps, " "))}
	}
	kind := r.Intn(10)
	memLen := 0
	switch {
	case kind < 5: // VerifyConfig-accepted sizes
		memLen = (1 << 20) + r.Intn(3<<20)
		if r.Intn(6) == 0 {
			memLen = (1 << 20) + r.Intn(60<<20)
		}
	case kind < 8: // small memories: error paths of create/mapping
		memLen = 1 + r.Intn(5000)
	default:
		memLen = []int{1, 2, 4, 5, 8, 9, 43, 44, 45, 64, 65, 100, 1 << 20}[r.Intn(13)]
	}
	k := 1 + r.Intn(5)
	if r.Intn(12) == 0 {
		k = 0
	}
	valid := kind < 5 && r.Intn(4) != 0
	// percents: mostly a split of 100, sometimes not
	pcts := make([]int, k)
	left := 100
	for i := 0; i < k; i++ {
		if i == k-1 {
			pcts[i] = left
		} else {
			pcts[i] = r.Intn(left + 1)
			if valid {
				pcts[i] = 1 + r.Intn(left-(k-1-i))
			}
			left -= pcts[i]
		}
	}
	if !valid && r.Intn(8) == 0 && k > 0 {
		pcts[r.Intn(k)] += r.Intn(120)
	}
	var ps []string
	for i := 0; i < k; i++ {
		var size int
		sel := r.Intn(8)
		if valid {
			sel = 4 + r.Intn(4)
		}
		switch sel {
		case 0:
			size = 0
		case 1:
			size = 1 + r.Intn(64)
		case 2:
			size = memLen / (1 + r.Intn(8))
		case 3:
			size = memLen - r.Intn(64)
			if size < 0 {
				size = 1
			}
		case 4:
			size = 4096*(1+r.Intn(32)) - 20
		default:
			size = 1 + r.Intn(70000)
		}
		ps = append(ps, fmt.Sprintf("%d:%d", size, pcts[i]))
	}
	ops = append(ops, fmt.Sprintf("verify %d %s", memLen, strings.Join(ps, " ")))
	ops = append(ops, fmt.Sprintf("create %d %s", memLen, strings.Join(ps, " ")))
	ops = append(ops, "map")
	ops = append(ops, fmt.Sprintf("queue %d", []int{0, 1, 2, 3, 8, 1024, r.Intn(70000)}[r.Intn(7)]))
	if r.Intn(3) == 0 {
		ops = append(ops, fmt.Sprintf("qmgr %s %d", []string{"file", "memfd"}[r.Intn(2)], []int{1, 2, 3, 7, 8, 9, 1001, 4095, 8192, r.Intn(70000)}[r.Intn(10)]))
	}
	return ops
}

func c03Pairs(ws []string) []*SizePercentPair {
	var ps []*SizePercentPair
	for _, w := range ws {
		var a, b uint32
		fmt.Sscanf(strings.ReplaceAll(w, ":", " "), "%d %d", &a, &b)
		ps = append(ps, &SizePercentPair{Size: a, Percent: b})
	}
	return ps
}

func c03ShowLists(bm *bufferManager) string {
	var ls []string
	for _, l := range bm.lists {
		ls = append(ls, fmt.Sprintf("%d/%d/%d/%d/%d/%d/%d", l.offsetInShm, *l.cap, *l.capPerBuffer, l.bufferRegionOffsetInShm, len(l.bufferRegion), *l.head, *l.tail))
	}
	return strings.Join(ls, ";")
}

func c03ShowQ(q *queue, mem []byte) string {
	base := uintptr(unsafe.Pointer(&mem[0]))
	p := func(x unsafe.Pointer) uintptr { return uintptr(x) - base }
	ringOff, ringEnd := uintptr(0), uintptr(0)
	if cap(q.queueBytesOnMemory) > 0 {
		ringOff = p(unsafe.Pointer(&q.queueBytesOnMemory[:1][0]))
		ringEnd = ringOff + uintptr(len(q.queueBytesOnMemory))
	} else {
		// empty ring: derive from the header position (ring starts right behind the 24-byte header)
		ringOff = p(unsafe.Pointer(q.head)) - 4 + queueHeaderLength
		ringEnd = ringOff
	}
	hb := p(unsafe.Pointer(q.head)) - 4
	return fmt.Sprintf("%d/%d/%d/%d/%d/%d/%d", hb, q.cap, p(unsafe.Pointer(q.head)), p(unsafe.Pointer(q.tail)), p(unsafe.Pointer(q.workingFlag)), ringOff, ringEnd)
}

var c03Seq uint64

type c03Run struct {
	mem      []byte
	bm       *bufferManager
	accepted bool
	fail     string
	key      string
	tags     map[string]bool
}

func (c *c03Run) setFail(key, what string) {
	if c.fail == "" {
		c.fail, c.key = what, key
	}
}

// S: the property evaluated directly on the real objects (only for configurations VerifyConfig accepts)
func (c *c03Run) specCreate(bm *bufferManager, memLen int) {
	type rng struct{ lo, hi uint64 }
	var hdrs []rng
	prevEnd := uint64(bufferManagerHeaderSize)
	for li, l := range bm.lists {
		off := uint64(l.offsetInShm)
		n := uint64(*l.cap)
		cp := uint64(*l.capPerBuffer)
		regOff := uint64(l.bufferRegionOffsetInShm)
		regLen := uint64(len(l.bufferRegion))
		if off < prevEnd {
			c.setFail("overlap", fmt.Sprintf("class %d header at %d overlaps the previous class/manager header ending at %d", li, off, prevEnd))
		}
		if regOff != off+bufferListHeaderSize {
			c.setFail("header", fmt.Sprintf("class %d region does not start behind its 36-byte header", li))
		}
		if regOff+regLen > uint64(memLen) {
			c.setFail("out-of-mapping", fmt.Sprintf("class %d region [%d,%d) exceeds the mapping of %d bytes", li, regOff, regOff+regLen, memLen))
		}
		if n*(cp+bufferHeaderSize) > regLen {
			c.setFail("slots-outside-region", fmt.Sprintf("class %d: %d slots of %d+20 bytes do not fit its region of %d bytes", li, n, cp, regLen))
		}
		if n == 0 || cp == 0 {
			c.setFail("degenerate", fmt.Sprintf("class %d has cap=%d capPerBuffer=%d", li, n, cp))
		}
		hdrs = append(hdrs, rng{off, regOff + regLen})
		prevEnd = regOff + regLen
	}
	_ = hdrs
}

// bmgr <file|memfd> <cap> <size:percent>...: the buffer memory through the REAL entry points: the creator
// (getGlobalBufferManager / getGlobalBufferManagerWithMemFd) and a peer that maps the same shared object (the file by
// name, the memfd by a duplicate of the descriptor) must derive the same layout, inside the shared object
func (c *c03Run) bmgr(f []string) (line string) {
	defer func() {
		if r := recover(); r != nil {
			c.setFail("bmgr-panic", fmt.Sprintf("%s: panic: %v", strings.Join(f, " "), r))
			line = "panic"
		}
	}()
	capacity := uint32(vAtoi(f[2]))
	pairs := c03Pairs(f[3:])
	cfg := DefaultConfig()
	cfg.ShareMemoryBufferCap = capacity
	cfg.BufferSliceSizes = c03Pairs(f[3:])
	if capacity > 64<<20 || VerifyConfig(cfg) != nil {
		return "bad-op"
	}
	path := fmt.Sprintf("/dev/shm/verif_c03_%d_%d_buffer", os.Getpid(), atomic.AddUint64(&c03Seq, 1))
	var bm *bufferManager
	var err error
	if f[1] == "file" {
		os.Remove(path)
		bm, err = getGlobalBufferManager(path, capacity, true, pairs)
	} else {
		bm, err = getGlobalBufferManagerWithMemFd(path, 0, capacity, true, pairs)
	}
	if err != nil {
		// laying out may fail with an error (a class that gets no room): allowed
		c.tags["bmgr-create-err"] = true
		os.Remove(path)
		return "err"
	}
	defer addGlobalBufferManagerRefCount(path, -1)
	c.tags["bmgr-"+f[1]] = true
	if capacity%4096 != 0 {
		c.tags["bmgr-capacity-not-page-multiple"] = true
	}
	// the shared object: what a peer process gets to see
	var objSize int64
	var peerMem []byte
	if f[1] == "file" {
		fl, err := os.OpenFile(path, os.O_RDWR, 0)
		if err != nil {
			c.setFail("bmgr", "the creator's file cannot be opened: "+err.Error())
			return "err"
		}
		defer fl.Close()
		fi, _ := fl.Stat()
		objSize = fi.Size()
		peerMem, err = syscall.Mmap(int(fl.Fd()), 0, int(objSize), syscall.PROT_READ|syscall.PROT_WRITE, syscall.MAP_SHARED)
		if err != nil {
			c.setFail("bmgr", "the creator's file cannot be mapped: "+err.Error())
			return "err"
		}
		defer syscall.Munmap(peerMem)
	} else {
		var st syscall.Stat_t
		if err := syscall.Fstat(bm.memFd, &st); err != nil {
			return "err"
		}
		objSize = st.Size
	}
	if int64(len(bm.mem)) != objSize {
		c.setFail("creator-layout-exceeds-object", fmt.Sprintf("the creator laid out %d bytes, the shared object (what the peer maps) has %d bytes", len(bm.mem), objSize))
	}
	c.specCreate(bm, int(objSize))
	var bm2 *bufferManager
	if f[1] == "file" {
		bm2, err = mappingBufferManager(path, peerMem, 0)
	} else {
		fd2, derr := syscall.Dup(bm.memFd)
		if derr != nil {
			return "err"
		}
		bm2, err = getGlobalBufferManagerWithMemFd(path+"_peer", fd2, 0, false, nil)
		if err == nil {
			defer addGlobalBufferManagerRefCount(path+"_peer", -1)
		} else {
			syscall.Close(fd2)
		}
	}
	if err != nil {
		c.setFail("map-disagrees", "the creator succeeded but a peer cannot map the same shared object: "+err.Error())
		return "peer-err"
	}
	a, b := c03ShowLists(bm), c03ShowLists(bm2)
	if a != b {
		c.setFail("map-disagrees", fmt.Sprintf("creator sees %s, peer sees %s", a, b))
	}
	for li := range bm.lists {
		if li >= len(bm2.lists) {
			break
		}
		l1, l2 := bm.lists[li], bm2.lists[li]
		if len(l1.bufferRegion) > bufferHeaderSize && len(l2.bufferRegion) == len(l1.bufferRegion) && int64(l1.bufferRegionOffsetInShm)+int64(len(l1.bufferRegion)) <= objSize {
			last := len(l1.bufferRegion) - 1
			l1.bufferRegion[last] = byte(0xB0 + li)
			if l2.bufferRegion[last] != byte(0xB0+li) {
				c.setFail("map-disagrees", "byte written through the creator's slot not seen through the peer's")
			}
		}
	}
	return "ok lists=" + a
}

// lateAttach: the creator enqueues BEFORE the peer attaches (a file-mapping client's handshake has no reply: its first
// element can be in the queue when the server maps it): attaching must leave the queue as it is
func (c *c03Run) lateAttach(kind string, cap uint32) {
	path := fmt.Sprintf("/dev/shm/verif_c03_%d_%d_queue", os.Getpid(), atomic.AddUint64(&c03Seq, 1))
	var cq, mq *queueManager
	var err error
	e0 := queueElement{seqID: 3, offsetInShmBuf: 5, status: 1}
	if kind == "file" {
		os.Remove(path)
		if cq, err = createQueueManager(path, cap); err == nil {
			cq.mmapMapType = MemMapTypeDevShmFile
			cq.sendQueue.put(e0)
			mq, err = mappingQueueManager(path)
		}
	} else {
		if cq, err = createQueueManagerWithMemFd(path, cap); err == nil {
			cq.sendQueue.put(e0)
			var fd2 int
			if fd2, err = syscall.Dup(cq.memFd); err == nil {
				mq, err = mappingQueueManagerMemfd(path, fd2)
			}
		}
	}
	if err != nil {
		if cq != nil {
			cq.unmap()
		}
		return
	}
	defer func() {
		if kind == "file" {
			syscall.Munmap(mq.mem)
		} else {
			mq.unmap()
		}
		cq.unmap()
	}()
	c.tags["enqueue-before-peer-attaches"] = true
	if n := cq.sendQueue.size(); n != 1 {
		c.setFail("queue-lost-on-attach", fmt.Sprintf("one element was enqueued before the peer attached; after the attach the creator's send queue says size %d", n))
		return
	}
	if g, err := mq.recvQueue.pop(); err != nil || g != e0 {
		c.setFail("queue-lost-on-attach", fmt.Sprintf("the element enqueued before the peer attached did not come out of the peer's receive queue (got %v, %v)", g, err))
	}
}

func c03Exec(ops []string) vResult {
	c := &c03Run{tags: map[string]bool{}}
	if len(ops) > 0 && strings.HasPrefix(ops[0], "bmgr ") {
		var out []string
		for _, op := range ops {
			f := vFields(op)
			if len(f) >= 4 && f[0] == "bmgr" && (f[1] == "file" || f[1] == "memfd") {
				out = append(out, c.bmgr(f))
			} else {
				out = append(out, "bad-op")
			}
		}
		var tags []string
		for t := range c.tags {
			tags = append(tags, t)
		}
		return vResult{out: out, specFail: c.fail, key: c.key, tags: tags, noModel: true}
	}
	var out []string
	memLen := 0
	for _, op := range ops {
		f := vFields(op)
		switch {
		case len(f) >= 2 && f[0] == "verify":
			cfg := DefaultConfig()
			cfg.ShareMemoryBufferCap = uint32(vAtoi(f[1]))
			cfg.BufferSliceSizes = c03Pairs(f[2:])
			if err := VerifyConfig(cfg); err == nil {
				c.accepted = true
				c.tags["verify-accept"] = true
				out = append(out, "accept")
			} else {
				c.accepted = false
				out = append(out, "reject")
			}
		case len(f) >= 2 && f[0] == "create":
			memLen = vAtoi(f[1])
			if memLen <= 0 || memLen > 1<<32-1 {
				out = append(out, "bad-op")
				continue
			}
			if memLen > 200<<20 {
				// huge mappings (up to 4 GiB): lazily backed anonymous memory
				m, err := syscall.Mmap(-1, 0, memLen, syscall.PROT_READ|syscall.PROT_WRITE, syscall.MAP_ANON|syscall.MAP_PRIVATE|syscall.MAP_NORESERVE)
				if err != nil {
					out = append(out, "bad-op")
					continue
				}
				c.mem = m
				defer syscall.Munmap(m)
				c.tags["huge-mapping"] = true
			} else {
				c.mem = make([]byte, memLen)
			}
			c.bm = nil
			pairs := c03Pairs(f[2:])
			res := func() (r string) {
				defer func() {
					if e := recover(); e != nil {
						r = "panic"
						c.tags["create-panic"] = true
						if c.accepted {
							c.setFail("create-panic", fmt.Sprintf("createBufferManager panicked on a configuration VerifyConfig accepts: %v", e))
						}
					}
				}()
				bm, err := createBufferManager(pairs, "verif", c.mem, 0)
				if err != nil {
					c.tags["create-err"] = true
					return "err"
				}
				c.bm = bm
				c.tags["create-ok"] = true
				if len(bm.lists) > 1 {
					c.tags["multi-class"] = true
				}
				used := *(*uint32)(unsafe.Pointer(&c.mem[bmCapOffset]))
				n := *(*uint16)(unsafe.Pointer(&c.mem[0]))
				return fmt.Sprintf("ok used=%d n=%d lists=%s", used, n, c03ShowLists(bm))
			}()
			if c.bm != nil {
				c.specCreate(c.bm, memLen)
			}
			out = append(out, res)
		case len(f) == 1 && f[0] == "map":
			if c.bm == nil {
				out = append(out, "nothing")
				continue
			}
			res := func() (r string) {
				defer func() {
					if e := recover(); e != nil {
						r = "panic"
						c.setFail("map-panic", fmt.Sprintf("mappingBufferManager panicked: %v", e))
					}
				}()
				bm2, err := mappingBufferManager("verif", c.mem, 0)
				if err != nil {
					c.setFail("map-disagrees", "the creator succeeded but the mapper rejects the same memory: "+err.Error())
					return "err"
				}
				a, b := c03ShowLists(c.bm), c03ShowLists(bm2)
				if a != b {
					c.setFail("map-disagrees", fmt.Sprintf("creator sees %s, mapper sees %s", a, b))
				}
				// bytes written through one side's slot are read through the other's
				for li := range c.bm.lists {
					l1, l2 := c.bm.lists[li], bm2.lists[li]
					if len(l1.bufferRegion) > bufferHeaderSize && len(l2.bufferRegion) == len(l1.bufferRegion) {
						last := len(l1.bufferRegion) - 1
						l1.bufferRegion[last] = byte(0xA0 + li)
						if l2.bufferRegion[last] != byte(0xA0+li) {
							c.setFail("map-disagrees", "byte written through the creator's slot not seen through the mapper's")
						}
					}
				}
				return "ok lists=" + b
			}()
			out = append(out, res)
		case len(f) == 2 && f[0] == "queue":
			cap := uint32(vAtoi(f[1]))
			if cap > 1<<22 {
				out = append(out, "bad-op")
				continue
			}
			size := countQueueMemSize(cap) * queueCount
			mem := make([]byte, size)
			cs := createQueueFromBytes(mem[:size/2], cap)
			cr := createQueueFromBytes(mem[size/2:], cap)
			ms := mappingQueueFromBytes(mem[size/2:])
			mr := mappingQueueFromBytes(mem[:size/2])
			out = append(out, fmt.Sprintf("csend=%s crecv=%s msend=%s mrecv=%s", c03ShowQ(cs, mem), c03ShowQ(cr, mem), c03ShowQ(ms, mem), c03ShowQ(mr, mem)))
			// cross-wiring, observed: an element put on the creator's send queue comes out of the mapper's recv queue
			if cap > 0 {
				e := queueElement{seqID: 7, offsetInShmBuf: 8, status: 9}
				if err := cs.put(e); err != nil {
					c.setFail("queue", "put on an empty queue failed")
				}
				if g, err := mr.pop(); err != nil || g != e {
					c.setFail("queue-crosswire", "element put on the creator's send queue did not come out of the mapper's receive queue")
				}
				if _, err := ms.pop(); err == nil {
					c.setFail("queue-crosswire", "element put on the creator's send queue came out of the mapper's send queue")
				}
				e2 := queueElement{seqID: 17, offsetInShmBuf: 18, status: 19}
				ms.put(e2)
				if g, err := cr.pop(); err != nil || g != e2 {
					c.setFail("queue-crosswire", "element put on the mapper's send queue did not come out of the creator's receive queue")
				}
			}
		case len(f) == 3 && f[0] == "qmgr" && (f[1] == "file" || f[1] == "memfd"):
			// the same geometry through the REAL creation / mapping entry points (two mappings of one file or memfd)
			cap := uint32(vAtoi(f[2]))
			if cap > 1<<17 {
				out = append(out, "bad-op")
				continue
			}
			out = append(out, func() (line string) {
				defer func() {
					if r := recover(); r != nil {
						c.setFail("queue-crosswire", fmt.Sprintf("qmgr %s %d: panic: %v", f[1], cap, r))
						line = "panic"
					}
				}()
				path := fmt.Sprintf("/dev/shm/verif_c03_%d_%d_queue", os.Getpid(), atomic.AddUint64(&c03Seq, 1))
				var cq, mq *queueManager
				var err error
				if f[1] == "file" {
					os.Remove(path)
					if cq, err = createQueueManager(path, cap); err == nil {
						cq.mmapMapType = MemMapTypeDevShmFile
						mq, err = mappingQueueManager(path)
					}
				} else {
					if cq, err = createQueueManagerWithMemFd(path, cap); err == nil {
						var fd2 int
						if fd2, err = syscall.Dup(cq.memFd); err == nil {
							mq, err = mappingQueueManagerMemfd(path, fd2)
						}
					}
				}
				if err != nil {
					if cq != nil {
						cq.unmap()
					}
					c.setFail("queue", "creating / mapping the queue memory failed: "+err.Error())
					return "err"
				}
				defer func() {
					if f[1] == "file" {
						syscall.Munmap(mq.mem)
					} else {
						mq.unmap()
					}
					cq.unmap()
				}()
				line = fmt.Sprintf("csend=%s crecv=%s msend=%s mrecv=%s", c03ShowQ(cq.sendQueue, cq.mem), c03ShowQ(cq.recvQueue, cq.mem), c03ShowQ(mq.sendQueue, mq.mem), c03ShowQ(mq.recvQueue, mq.mem))
				if cap > 0 {
					c.lateAttach(f[1], cap)
				}
				if cap > 0 {
					e := queueElement{seqID: 7, offsetInShmBuf: 8, status: 9}
					if err := cq.sendQueue.put(e); err != nil {
						c.setFail("queue", "put on an empty queue failed")
					}
					if g, err := mq.recvQueue.pop(); err != nil || g != e {
						c.setFail("queue-crosswire", "element put on the creator's send queue did not come out of the mapper's receive queue")
					}
					if _, err := mq.sendQueue.pop(); err == nil {
						c.setFail("queue-crosswire", "element put on the creator's send queue came out of the mapper's send queue")
					}
					e2 := queueElement{seqID: 17, offsetInShmBuf: 18, status: 19}
					mq.sendQueue.put(e2)
					if g, err := cq.recvQueue.pop(); err != nil || g != e2 {
						c.setFail("queue-crosswire", "element put on the mapper's send queue did not come out of the creator's receive queue")
					}
				}
				return line
			}())
		default:
			out = append(out, "bad-op")
		}
	}
	var tags []string
	for t := range c.tags {
		tags = append(tags, t)
	}
	return vResult{out: out, specFail: c.fail, key: c.key, tags: tags}
}
