// instrument: mechanical, add-only-in-effect rewriting of the CURRENT /repo sources into
// copies used through `go test -overlay`. Nothing is written to /repo.
//
// Rules (applied to the files listed on the command line):
//   R1  every call  atomic.F(args)  with F not in {AddUint64, LoadUint64}
//         ->  vAtomicF("<source text of the call>", args)
//       (the wrapper yields to the controlled scheduler, then performs sync/atomic.F)
//   R2  in the bufferHeader accessor methods (hasNext, nextBufferOffset, clearFlag, setInUsed,
//       isInUsed, linkNext): `vYield("<method>#<i>")` before every top-level statement
//   R3  in queue.put / queue.pop: `vYield("slot:<stmt>")` before every statement that touches
//       queueBytesOnMemory; q.Lock()/q.Unlock() -> vLock(&q.Mutex)/vUnlock(&q.Mutex)
//   R4  in bufferList.pop: the plain read `*b.size` -> vPlainLoadI32("*b.size", b.size)
//   R5  gopool.Go(f) -> vGo(f)   (stream.go)
//   R7  syscall.RawSyscall(SYS_READ,..) / syscall.Syscall(SYS_WRITE|SYS_WRITEV,..) -> vSysRead/vSysWrite/vSysWritev(..)
//   R8  s.asyncGoroutineWg.Add(n) / .Done() / .Wait() -> vWgAdd(&s.asyncGoroutineWg, n) / vWgDone(..) / vWgWait(..)
//   R9  (listener.go, session_manager.go) go func(){..}() -> vGo(func(){..}); go func(id int){..}(i) -> vGoInt(.., i)
//   R10 (same files) time.NewTimer / time.NewTicker / time.Sleep -> vNewTimer / vNewTicker / vSleep (harness-controlled)
//   R11 (same files) vYield("sel:<recv>.<fn>#k") before every select of checkHotRestart / background; also Stream.readMore
//   R12 (session_manager.go) newClientSession(..) -> vNewClientSession(..) (hook; the real function when no hook is set)
//   R13 (session.go, newSession) after the statement `if err := s.eventConn.setCallback(s); ...` : vRegistered(s)
//       (a crash-point hook: the connection may break between the registration with the event loop and newSession's return)
//   R14 (stream.go, Flush) `retryTimer := time.NewTimer(..)` is preceded by vRetryGate()
//       (the harness decides when a Flush that found the queue full retries: after the peer drained the queue)
//   R6  in Session.wakeUpPeer / Session.hotRestart / Session.send: s.writeEventData(..) is preceded by
//       vYield("writeEvent")
// With no scheduler installed every v* helper is a pass-through.
package main

import (
	"fmt"
	"go/ast"
	"go/parser"
	"go/token"
	"os"
	"path/filepath"
	"sort"
	"strings"
)

type edit struct {
	off, end int
	text     string
}

var accessor = map[string]bool{"hasNext": true, "nextBufferOffset": true, "clearFlag": true,
	"setInUsed": true, "isInUsed": true, "linkNext": true}

func recvName(fd *ast.FuncDecl) string {
	if fd.Recv == nil || len(fd.Recv.List) == 0 {
		return ""
	}
	t := fd.Recv.List[0].Type
	if st, ok := t.(*ast.StarExpr); ok {
		t = st.X
	}
	if id, ok := t.(*ast.Ident); ok {
		return id.Name
	}
	return ""
}

func norm(s string) string { return strings.Join(strings.Fields(s), " ") }

func quote(s string) string {
	s = strings.ReplaceAll(s, "\\", "\\\\")
	s = strings.ReplaceAll(s, "\"", "\\\"")
	return "\"" + s + "\""
}

func main() {
	if len(os.Args) < 4 {
		fmt.Fprintln(os.Stderr, "usage: instrument <repo> <outdir> file.go...")
		os.Exit(2)
	}
	repo, out := os.Args[1], os.Args[2]
	os.MkdirAll(out, 0o755)
	for _, name := range os.Args[3:] {
		path := filepath.Join(repo, name)
		src, err := os.ReadFile(path)
		if err != nil {
			fmt.Fprintln(os.Stderr, err)
			os.Exit(3)
		}
		fset := token.NewFileSet()
		af, err := parser.ParseFile(fset, path, src, parser.ParseComments)
		if err != nil {
			fmt.Fprintln(os.Stderr, err)
			os.Exit(3)
		}
		off := func(p token.Pos) int { return fset.Position(p).Offset }
		text := func(n ast.Node) string { return string(src[off(n.Pos()):off(n.End())]) }
		var edits []edit
		importsAtomic := false
		for _, im := range af.Imports {
			if im.Path.Value == "\"sync/atomic\"" {
				importsAtomic = true
			}
		}
		for _, d := range af.Decls {
			fd, ok := d.(*ast.FuncDecl)
			if !ok || fd.Body == nil {
				continue
			}
			rn, fn := recvName(fd), fd.Name.Name
			// R2
			if rn == "bufferHeader" && accessor[fn] {
				for i, st := range fd.Body.List {
					edits = append(edits, edit{off(st.Pos()), off(st.Pos()), fmt.Sprintf("vYield(%s); ", quote(fmt.Sprintf("%s#%d", fn, i)))})
				}
			}
			isQ := rn == "queue" && (fn == "put" || fn == "pop")
			isPop := rn == "bufferList" && fn == "pop"
			isWriter := rn == "Session" && (fn == "wakeUpPeer" || fn == "hotRestart" || fn == "send")
			isRestartFile := name == "listener.go" || name == "session_manager.go"
			selN := 0
			ast.Inspect(fd.Body, func(n ast.Node) bool {
				switch x := n.(type) {
				case *ast.GoStmt:
					// R9: go func(..){..}(args) -> vGo(func(){..}) / vGoInt(func(id int){..}, arg)   (listener.go, session_manager.go)
					if fl, ok := x.Call.Fun.(*ast.FuncLit); ok && isRestartFile {
						if len(x.Call.Args) == 0 {
							edits = append(edits, edit{off(x.Pos()), off(fl.Pos()), "vGo("})
							edits = append(edits, edit{off(fl.End()), off(x.Call.End()), ")"})
						} else if len(x.Call.Args) == 1 {
							edits = append(edits, edit{off(x.Pos()), off(fl.Pos()), "vGoInt("})
							edits = append(edits, edit{off(fl.End()), off(x.Call.End()), ", " + text(x.Call.Args[0]) + ")"})
						}
					} else if isRestartFile && len(x.Call.Args) == 0 {
						// `go recv.method()` (a rewrite of `go func(){ recv.method() }()`): captured as well
						edits = append(edits, edit{off(x.Pos()), off(x.Call.Pos()), "vGo(func() { "})
						edits = append(edits, edit{off(x.Call.End()), off(x.Call.End()), " })"})
					}
				case *ast.SelectStmt:
					// R11: a scheduling point before every select of the hot-restart checkers and the pool watchers
					if (isRestartFile && (fn == "checkHotRestart" || fn == "background")) || (name == "stream.go" && fn == "readMore") {
						edits = append(edits, edit{off(x.Pos()), off(x.Pos()), fmt.Sprintf("vYield(%s); ", quote(fmt.Sprintf("sel:%s.%s#%d", rn, fn, selN)))})
						selN++
					}
				case *ast.CallExpr:
					if id, ok := x.Fun.(*ast.Ident); ok && id.Name == "newClientSession" && isRestartFile {
						edits = append(edits, edit{off(id.Pos()), off(id.End()), "vNewClientSession"}) // R12
					}
					if se, ok := x.Fun.(*ast.SelectorExpr); ok {
						if id, ok := se.X.(*ast.Ident); ok && id.Name == "time" && isRestartFile &&
							(se.Sel.Name == "NewTimer" || se.Sel.Name == "NewTicker" || se.Sel.Name == "Sleep") {
							edits = append(edits, edit{off(se.Pos()), off(se.End()), "v" + se.Sel.Name}) // R10
						}
						if in, ok := se.X.(*ast.SelectorExpr); ok && in.Sel.Name == "asyncGoroutineWg" {
							// R8: the callback goroutines' WaitGroup goes through a shadow counter so that Wait() can yield
							edits = append(edits, edit{off(x.Pos()), off(x.Lparen) + 1, "vWg" + se.Sel.Name + "(&" + text(in)})
							if len(x.Args) > 0 {
								edits = append(edits, edit{off(x.Lparen) + 1, off(x.Lparen) + 1, ", "})
							}
						}
						if id, ok := se.X.(*ast.Ident); ok {
							if id.Name == "atomic" && se.Sel.Name != "AddUint64" && se.Sel.Name != "LoadUint64" {
								// R1
								edits = append(edits, edit{off(se.Pos()), off(se.End()), "vAtomic" + se.Sel.Name})
								edits = append(edits, edit{off(x.Lparen) + 1, off(x.Lparen) + 1, quote(fn+":"+norm(text(x))) + ", "})
							}
							if id.Name == "syscall" && (se.Sel.Name == "RawSyscall" || se.Sel.Name == "Syscall") && len(x.Args) == 4 {
								// R7: the three raw IO syscalls of the event connection go through a shim
								if a0, ok := x.Args[0].(*ast.SelectorExpr); ok {
									shim := map[string]string{"SYS_READ": "vSysRead", "SYS_WRITE": "vSysWrite", "SYS_WRITEV": "vSysWritev"}[a0.Sel.Name]
									if shim != "" {
										edits = append(edits, edit{off(x.Pos()), off(x.Args[1].Pos()), shim + "("})
									}
								}
							}
							if id.Name == "gopool" && se.Sel.Name == "Go" {
								edits = append(edits, edit{off(se.Pos()), off(se.End()), "vGo"}) // R5
							}
							if isQ && id.Name == "q" && (se.Sel.Name == "Lock" || se.Sel.Name == "Unlock") && len(x.Args) == 0 {
								edits = append(edits, edit{off(x.Pos()), off(x.End()), "v" + se.Sel.Name + "(&q.Mutex)"})
							}
						}
					}
				case *ast.StarExpr:
					if isPop {
						if se, ok := x.X.(*ast.SelectorExpr); ok {
							if id, ok := se.X.(*ast.Ident); ok && id.Name == "b" && se.Sel.Name == "size" {
								edits = append(edits, edit{off(x.Pos()), off(x.End()), "vPlainLoadI32(\"*b.size\", b.size)"}) // R4
							}
						}
					}
				case *ast.BlockStmt:
					for _, st := range x.List {
						if is, ok := st.(*ast.IfStmt); ok && name == "session.go" && fn == "newSession" && is.Init != nil &&
							strings.Contains(text(is.Init), "setCallback(") {
							edits = append(edits, edit{off(st.End()), off(st.End()), "; vRegistered(s)"}) // R13
						}
						if as, ok := st.(*ast.AssignStmt); ok && name == "stream.go" && fn == "Flush" && strings.HasPrefix(text(as), "retryTimer := time.NewTimer(") {
							edits = append(edits, edit{off(st.Pos()), off(st.Pos()), "vRetryGate(); "}) // R14
						}
						if isQ {
							if _, isIf := st.(*ast.IfStmt); !isIf && strings.Contains(text(st), "queueBytesOnMemory") {
								edits = append(edits, edit{off(st.Pos()), off(st.Pos()), "vYield(" + quote("slot:"+norm(text(st))) + "); "}) // R3
							}
						}
						if isWriter {
							if es, ok := st.(*ast.ExprStmt); ok && strings.Contains(text(es), "s.writeEventData(") {
								edits = append(edits, edit{off(st.Pos()), off(st.Pos()), "vYield(\"writeEvent\"); "}) // R6
							}
						}
					}
				}
				return true
			})
		}
		sort.SliceStable(edits, func(i, j int) bool { return edits[i].off > edits[j].off })
		outb := append([]byte{}, src...)
		for _, e := range edits {
			outb = append(outb[:e.off], append([]byte(e.text), outb[e.end:]...)...)
		}
		if importsAtomic {
			outb = append(outb, []byte("\nvar _ = atomic.LoadUint32\n")...)
		}
		if strings.Contains(string(src), "\"time\"") && (name == "listener.go" || name == "session_manager.go") {
			outb = append(outb, []byte("\nvar _ = time.Now\n")...)
		}
		if strings.Contains(string(src), "gopool.") {
			outb = append(outb, []byte("\nvar _ = gopool.Go\n")...)
		}
		if err := os.WriteFile(filepath.Join(out, name), outb, 0o644); err != nil {
			fmt.Fprintln(os.Stderr, err)
			os.Exit(4)
		}
	}
}
