// extract: tie 1 of the verification framework.
//
// Re-reads the Go sources of /repo on every run and regenerates
//   <out>/Consts.lean : every package-level integer constant, evaluated
//   <out>/Skel.lean   : for every designated function, its normalised body
//                       (comments, blank lines and pure logging statements removed)
//                       as a `List String`
//   <out>/facts.json  : the same, for the python driver's diagnostics
//
// The extractor does not interpret Go: it projects the AST. The Lean side states
// `Gen.x = Model.x` (constants) and `Gen.Skel.f = Expected.f` (skeletons) as proof
// obligations that are re-checked by `lake build` against the current tree.
package main

import (
	"bytes"
	"encoding/json"
	"fmt"
	"go/ast"
	"go/parser"
	"go/printer"
	"go/token"
	"os"
	"path/filepath"
	"sort"
	"strconv"
	"strings"
)

type constInfo struct {
	expr ast.Expr
	iota int
	file string
}

var (
	consts   = map[string]*constInfo{}
	constVal = map[string]*int64{}
	evalBusy = map[string]bool{}
)

var timeConsts = map[string]int64{
	"Nanosecond": 1, "Microsecond": 1000, "Millisecond": 1000000,
	"Second": 1000000000, "Minute": 60000000000, "Hour": 3600000000000,
}

func eval(e ast.Expr, iota int) (int64, bool) {
	switch x := e.(type) {
	case *ast.BasicLit:
		if x.Kind == token.INT {
			v, err := strconv.ParseInt(x.Value, 0, 64)
			if err != nil {
				u, err2 := strconv.ParseUint(x.Value, 0, 64)
				if err2 != nil {
					return 0, false
				}
				return int64(u), true
			}
			return v, true
		}
		if x.Kind == token.CHAR {
			r, _, _, err := strconv.UnquoteChar(x.Value[1:len(x.Value)-1], '\'')
			if err != nil {
				return 0, false
			}
			return int64(r), true
		}
		return 0, false
	case *ast.Ident:
		if x.Name == "iota" {
			return int64(iota), true
		}
		return evalName(x.Name)
	case *ast.ParenExpr:
		return eval(x.X, iota)
	case *ast.SelectorExpr:
		if id, ok := x.X.(*ast.Ident); ok && id.Name == "time" {
			v, ok := timeConsts[x.Sel.Name]
			return v, ok
		}
		return 0, false
	case *ast.CallExpr: // conversion T(x)
		if len(x.Args) == 1 {
			return eval(x.Args[0], iota)
		}
		return 0, false
	case *ast.UnaryExpr:
		v, ok := eval(x.X, iota)
		if !ok {
			return 0, false
		}
		switch x.Op {
		case token.SUB:
			return -v, true
		case token.ADD:
			return v, true
		}
		return 0, false
	case *ast.BinaryExpr:
		a, ok1 := eval(x.X, iota)
		b, ok2 := eval(x.Y, iota)
		if !ok1 || !ok2 {
			return 0, false
		}
		switch x.Op {
		case token.ADD:
			return a + b, true
		case token.SUB:
			return a - b, true
		case token.MUL:
			return a * b, true
		case token.QUO:
			if b == 0 {
				return 0, false
			}
			return a / b, true
		case token.REM:
			if b == 0 {
				return 0, false
			}
			return a % b, true
		case token.SHL:
			return a << uint(b), true
		case token.SHR:
			return a >> uint(b), true
		case token.OR:
			return a | b, true
		case token.AND:
			return a & b, true
		}
		return 0, false
	}
	return 0, false
}

func evalName(n string) (int64, bool) {
	if v, ok := constVal[n]; ok {
		if v == nil {
			return 0, false
		}
		return *v, true
	}
	ci, ok := consts[n]
	if !ok || evalBusy[n] {
		return 0, false
	}
	evalBusy[n] = true
	v, ok := eval(ci.expr, ci.iota)
	evalBusy[n] = false
	if !ok {
		constVal[n] = nil
		return 0, false
	}
	constVal[n] = &v
	return v, true
}

func isLogCall(e ast.Expr) bool {
	call, ok := e.(*ast.CallExpr)
	if !ok {
		return false
	}
	switch f := call.Fun.(type) {
	case *ast.Ident:
		return f.Name == "protocolTrace"
	case *ast.SelectorExpr:
		// walk the selector chain looking for a logger
		var cur ast.Expr = f
		for {
			switch c := cur.(type) {
			case *ast.SelectorExpr:
				if c.Sel.Name == "logger" {
					return true
				}
				cur = c.X
				continue
			case *ast.Ident:
				if c.Name == "internalLogger" || c.Name == "protocolLogger" {
					return true
				}
				if c.Name == "fmt" && (f.Sel.Name == "Println" || f.Sel.Name == "Printf") {
					return true
				}
			}
			break
		}
	}
	return false
}

func stripLogs(list []ast.Stmt) []ast.Stmt {
	out := list[:0:0]
	for _, s := range list {
		if es, ok := s.(*ast.ExprStmt); ok && isLogCall(es.X) {
			continue
		}
		out = append(out, s)
	}
	return out
}

type stripper struct{}

func (stripper) Visit(n ast.Node) ast.Visitor {
	switch x := n.(type) {
	case *ast.BlockStmt:
		x.List = stripLogs(x.List)
	case *ast.CaseClause:
		x.Body = stripLogs(x.Body)
	case *ast.CommClause:
		x.Body = stripLogs(x.Body)
	}
	return stripper{}
}

func leanStr(s string) string {
	var b strings.Builder
	b.WriteByte('"')
	for _, r := range s {
		switch {
		case r == '"':
			b.WriteString("\\\"")
		case r == '\\':
			b.WriteString("\\\\")
		case r == '\t':
			b.WriteString(" ")
		case r < 32 || r > 126:
			fmt.Fprintf(&b, "\\u{%x}", r)
		default:
			b.WriteRune(r)
		}
	}
	b.WriteByte('"')
	return b.String()
}

func leanIdent(s string) string {
	r := strings.NewReplacer(".", "_", "*", "", "(", "", ")", "", " ", "")
	return r.Replace(s)
}

func main() {
	if len(os.Args) < 4 {
		fmt.Fprintln(os.Stderr, "usage: extract <repo> <targets.txt> <outdir>")
		os.Exit(2)
	}
	repo, targetsFile, out := os.Args[1], os.Args[2], os.Args[3]
	fset := token.NewFileSet()
	files, _ := filepath.Glob(filepath.Join(repo, "*.go"))
	sort.Strings(files)
	parsed := map[string]*ast.File{}
	for _, f := range files {
		base := filepath.Base(f)
		if strings.HasSuffix(base, "_test.go") || strings.HasSuffix(base, "_bsd.go") ||
			strings.HasSuffix(base, "_arm64.go") ||
			strings.HasPrefix(base, "zz_verif") {
			continue
		}
		af, err := parser.ParseFile(fset, f, nil, 0)
		if err != nil {
			fmt.Fprintf(os.Stderr, "parse error %s: %v\n", f, err)
			os.Exit(3)
		}
		parsed[base] = af
		if strings.Contains(base, "_race_") {
			continue // the -race variant of the dispatcher: functions only (its constants duplicate the normal file's)
		}
		for _, d := range af.Decls {
			gd, ok := d.(*ast.GenDecl)
			if !ok || gd.Tok != token.CONST {
				continue
			}
			var last []ast.Expr
			for i, sp := range gd.Specs {
				vs := sp.(*ast.ValueSpec)
				vals := vs.Values
				if len(vals) == 0 {
					vals = last
				} else {
					last = vals
				}
				for j, n := range vs.Names {
					if n.Name == "_" || j >= len(vals) {
						continue
					}
					consts[n.Name] = &constInfo{expr: vals[j], iota: i, file: base}
				}
			}
		}
	}
	names := make([]string, 0, len(consts))
	for n := range consts {
		names = append(names, n)
	}
	sort.Strings(names)
	facts := map[string]interface{}{}
	cvals := map[string]int64{}
	var cb bytes.Buffer
	cb.WriteString("-- GENERATED by /verif/go/extract from /repo on every run. Do not edit.\nnamespace Gen\n\n")
	for _, n := range names {
		v, ok := evalName(n)
		if !ok {
			// a plain string constant: emitted as s_<name>
			if bl, isLit := consts[n].expr.(*ast.BasicLit); isLit && bl.Kind == token.STRING {
				if sv, err := strconv.Unquote(bl.Value); err == nil && !strings.ContainsAny(sv, "\n\r\\\"") {
					fmt.Fprintf(&cb, "def s_%s : String := \"%s\"\n", n, sv)
				}
			}
			continue
		}
		cvals[n] = v
		fmt.Fprintf(&cb, "def c_%s : Int := %d\n", n, v)
	}
	cb.WriteString("\nend Gen\n")
	facts["consts"] = cvals

	// skeletons
	tb, err := os.ReadFile(targetsFile)
	if err != nil {
		fmt.Fprintln(os.Stderr, err)
		os.Exit(2)
	}
	var sb bytes.Buffer
	sb.WriteString("-- GENERATED by /verif/go/extract from /repo on every run. Do not edit.\nnamespace Gen.Skel\n\n")
	skels := map[string][]string{}
	var order []string
	for _, line := range strings.Split(string(tb), "\n") {
		line = strings.TrimSpace(line)
		if line == "" || strings.HasPrefix(line, "#") {
			continue
		}
		fs := strings.Fields(line)
		if len(fs) < 2 {
			continue
		}
		file, fn := fs[0], fs[1]
		recv := ""
		if i := strings.Index(fn, "."); i >= 0 {
			recv, fn = fn[:i], fn[i+1:]
		}
		name := leanIdent(fs[1])
		if len(fs) >= 3 && !strings.HasPrefix(fs[2], "--") {
			name = leanIdent(fs[2]) // explicit name (two files define the same function under different build tags)
		}
		order = append(order, name)
		af := parsed[file]
		var found *ast.FuncDecl
		if af != nil {
			for _, d := range af.Decls {
				fd, ok := d.(*ast.FuncDecl)
				if !ok || fd.Name.Name != fn {
					continue
				}
				r := ""
				if fd.Recv != nil && len(fd.Recv.List) > 0 {
					t := fd.Recv.List[0].Type
					if st, ok := t.(*ast.StarExpr); ok {
						t = st.X
					}
					if id, ok := t.(*ast.Ident); ok {
						r = id.Name
					}
				}
				if r == recv {
					found = fd
					break
				}
			}
		}
		if found == nil {
			skels[name] = []string{"<missing>"}
			continue
		}
		found.Doc = nil
		ast.Walk(stripper{}, found)
		var pb bytes.Buffer
		cfg := printer.Config{Mode: printer.RawFormat, Tabwidth: 1}
		// print without comments: pass the node only
		if err := cfg.Fprint(&pb, fset, found); err != nil {
			skels[name] = []string{"<print error>"}
			continue
		}
		var lines []string
		for _, l := range strings.Split(pb.String(), "\n") {
			l = strings.Join(strings.Fields(l), " ")
			if l == "" {
				continue
			}
			lines = append(lines, l)
		}
		skels[name] = lines
	}
	for _, name := range order {
		fmt.Fprintf(&sb, "def %s : List String := [\n", name)
		ls := skels[name]
		for i, l := range ls {
			sep := ","
			if i == len(ls)-1 {
				sep = ""
			}
			fmt.Fprintf(&sb, "  %s%s\n", leanStr(l), sep)
		}
		sb.WriteString("]\n\n")
	}
	sb.WriteString("end Gen.Skel\n")
	facts["skeletons"] = skels

	os.MkdirAll(out, 0o755)
	writeIfChanged(filepath.Join(out, "Consts.lean"), cb.Bytes())
	writeIfChanged(filepath.Join(out, "Skel.lean"), sb.Bytes())
	jb, _ := json.MarshalIndent(facts, "", " ")
	writeIfChanged(filepath.Join(out, "facts.json"), jb)
}

func writeIfChanged(path string, data []byte) {
	old, err := os.ReadFile(path)
	if err == nil && bytes.Equal(old, data) {
		return
	}
	if err := os.WriteFile(path, data, 0o644); err != nil {
		fmt.Fprintln(os.Stderr, err)
		os.Exit(4)
	}
}
