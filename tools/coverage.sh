#!/bin/bash
# tools/coverage.sh: which library functions do the harnesses (quick tier, all properties) execute? Builds the same overlay
# harness with -cover, runs every property's quick tier, merges the profiles, prints functions with 0% coverage.
set -u
cd /verif
./check --setup >/dev/null 2>&1
export GOFLAGS=-mod=mod GOPROXY=off GOSUMDB=off GOTOOLCHAIN=local
W=/verif/.work/cov; rm -rf $W; mkdir -p $W
( cd /repo && go test -c -cover -covermode=set -coverpkg=. -tags verif -vet=off -overlay /verif/.work/overlay.json -o $W/shmipc.cov.test . ) || exit 2
for p in $(python3 -c "import sys; sys.path.insert(0,'/verif'); from props import PROPS; print(' '.join(sorted(PROPS)))"); do
  mkdir -p $W/$p
  ( cd $W/$p && VERIF_PROP=$p VERIF_TIER=quick VERIF_SEED=1 VERIF_OUT=$W/$p VERIF_CORPUS=/verif/go/harness/corpus VERIF_DIR=/verif VERIF_REPO=/repo \
      timeout 1200 $W/shmipc.cov.test -test.run '^TestVerifMain$' -test.timeout 0 -test.count 1 -test.coverprofile=$W/$p.out >/dev/null 2>&1 )
  echo "$p done"
done
python3 - <<'P'
import glob,re,collections
cov=collections.defaultdict(int)
for f in glob.glob('/verif/.work/cov/*.out'):
    for l in open(f):
        if l.startswith('mode:'): continue
        m=re.match(r'(.*):(\d+)\.\d+,(\d+)\.\d+ (\d+) (\d+)',l)
        if m: cov[(m.group(1),int(m.group(2)),int(m.group(3)))]=max(cov[(m.group(1),int(m.group(2)),int(m.group(3)))],int(m.group(5)))
open('/verif/.work/cov/merged.txt','w').write("\n".join("%s %d %d %d"%(k[0],k[1],k[2],v) for k,v in sorted(cov.items())))
print(len(cov),"blocks;",sum(1 for v in cov.values() if v),"covered")
P
