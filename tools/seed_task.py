#!/usr/bin/env python3
"""tools/seed_task.py <round> <Cnn>... : create a scratch worktree /var/tmp/w<round>_<Cnn> of /repo HEAD per property with
PROPERTY.json and TASK.md for a fresh sub-agent (nothing from /verif is put there except the property text and the
list of changes already made, stripped of every mention of the checks)."""
import json,os,subprocess,glob,re
tried={}
for d in sorted(glob.glob('/verif/seeded/*/')):
    m=json.load(open(d+'meta.json')); p=m['property']
    files=[l[6:].strip() for l in open(d+'patch.diff') if l.startswith('+++ b/')]
    s=(m.get('summary') or '')
    s=re.sub(r"^round \d[^:]*: ","",s)
    cut=len(s)
    for kw in ['; first ','; C0','; C1','; C2',' first NOT',' first tie','; caught ',' DETECTED',' First run',' Originally',' First NOT',' First TIE','. Needs ']:
        i=s.find(kw)
        if i!=-1: cut=min(cut,i)
    tried.setdefault(p,[]).append('%s: %s'%(files[0] if files else '?', s[:cut][:300]))
props={}
for l in open('/verif/properties.jsonl'):
    d=json.loads(l); props[d['id']]=d
T='''You are working ONLY inside the directory %(wt)s, a git worktree of the Go library cloudwego/shmipc-go (shared-memory IPC: lock-free free-lists and I/O queues in mmap'd memory, multiplexed streams over a unix/tcp control connection, session manager with hot restart, net.Listener adapter). The sandbox has no network; before any go command run: export GOFLAGS=-mod=mod GOPROXY=off GOSUMDB=off.

Read %(wt)s/PROPERTY.json: it describes a semantic property the library is supposed to satisfy (title, statement, quantifier, why the existing tests cannot settle it, code anchors).

Your task: make ONE small, realistic code change to the library sources (the kind of regression a maintainer could plausibly introduce during a refactor or an optimisation) that BREAKS this property, while (a) the code still compiles, (b) the existing test suite, unedited, still passes, and (c) the violation needs something specific to manifest (a particular interleaving, size, ordering of events, failure point, boundary value, configuration) rather than failing on every use. Prefer subtle over blatant.

Earlier attempts already made these changes:
%(tried)s
Choose a DIFFERENT function and a different mechanism from all of them. These have also been done already for other properties, do not repeat them: handleFallbackData keeping a window into the connection's read buffer; Stream.Flush making the fall-back state non-sticky; queue.markNotWorking checking the size before clearing the flag; mappingQueueManager rounding the split offset; wakeUpPeer / hotRestart writing to the connection beside the send loop; getStream dropping streams when the accept queue is full; getGlobalBufferManagerWithMemFd rounding the capacity after the truncate or not unmapping a refused region; handlePolling returning early on an empty queue; writeFallback recycling before copying; handleEvent serving write-ready only without read-ready; pendingData.moveTo dropping its lock during a long chain; bufferList.push no longer resetting the header. Look for places the property depends on only indirectly: helpers shared with other features, the order of two statements, an error branch, a default value, integer conversions and widths, a lock released a line too early, a state flag set before rather than after an action, the tcp / memfd / callback variant of something whose unix / file / blocking variant is well exercised, behaviour at exactly-full / exactly-empty.

Then write a demonstration that exhibits the violation on your changed code and does not on the original code: a Go test file placed in the package directory (e.g. zz_demo_test.go, package shmipc, it may use unexported identifiers and build objects by hand) or a small program. If the violation needs a specific interleaving you may force it in the demo by calling internal functions step by step or with goroutines + sleeps local to the demo; it must be reproducible.

Deliverables, all inside %(wt)s/OUT/ :
  - patch.diff : `git diff` of the library source change only (NOT including the demo file)
  - the demo file(s) (copy; give the copy the extension .go.txt so that the go tool does not see a second package)
  - NOTES.md : what the change is, why the existing tests still pass, what exactly triggers the violation, how to run the demo, and the demo's output on the patched and on the original code.
Verify yourself: go build ./... ; the full existing suite passes with the patch applied (name the demo test TestZZDemo... so that it can be excluded with -skip TestZZDemo); the demo detects the violation with the patch and is clean without it (to compare use `git diff -- . ':!OUT' > OUT/patch.diff; git apply -R OUT/patch.diff` and `git apply OUT/patch.diff`; NEVER use git stash: the stash is shared with other worktrees; NEVER use pkill / killall with a pattern that could match other people's processes).
Other people run the same test suite on this machine at the same time; it uses fixed TCP ports, fixed /tmp socket paths and fixed /dev/shm names. ALWAYS run tests inside private namespaces:
  unshare -n -m sh -c 'ip link set lo up; mount -t tmpfs tmpfs /dev/shm; mkdir -p /var/tmp/priv_%(pid)s && mount -t tmpfs tmpfs /var/tmp/priv_%(pid)s; mount --bind /var/tmp/priv_%(pid)s /tmp 2>/dev/null; export GOTMPDIR=/root GOFLAGS=-mod=mod GOPROXY=off GOSUMDB=off; cd %(wt)s && go test -mod=mod -vet=off -count=1 -timeout 25m -skip TestZZDemo . 2>&1 | tail -5'
(the suite takes about one minute; under heavy machine load its 1 s handshake time-out can expire - "protocolInitializer init timeout" - and a test TestBufferList_ConcurrentPutPop is known to fail rarely on the unchanged code: re-run in those cases).
Constraints: do not touch anything outside %(wt)s; do not commit; do not look at /verif or /repo. Keep the patch minimal (a few lines). Report back a short summary (what you changed, how it manifests, whether all verifications succeeded).
'''
import sys
rnd=sys.argv[1]
for pid in sys.argv[2:]:
    p=props[pid]
    wt='/var/tmp/w%s_%s'%(rnd,pid)
    if not os.path.isdir(wt):
        subprocess.run(['git','-C','/repo','worktree','add','-q',wt,'HEAD'],check=True)
    a=dict(p['anchors']); a.pop('hook_needed',None)
    q={k:p[k] for k in ('id','title','statement','quantifier','why_tests_cant')}
    q['anchors']=a
    json.dump(q,open(wt+'/PROPERTY.json','w'),indent=1)
    os.makedirs(wt+'/OUT',exist_ok=True)
    open(wt+'/TASK.md','w').write(T%{'wt':wt,'pid':pid,'tried':'\n'.join('  - '+t for t in tried[pid])})
