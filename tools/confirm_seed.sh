#!/bin/bash
# tools/confirm_seed.sh <patch.diff> <demo_test.go> <TestRegex> : confirm a seeded change in a scratch worktree of /repo's HEAD:
# builds, the existing suite passes with it, the demonstration fails with it and passes without it. The worktree is removed.
set -u
patch="$1"; demo="$2"; rx="$3"
wt=/var/tmp/confirm_$$
git -C /repo worktree add -q "$wt" HEAD || exit 2
trap 'git -C /repo worktree remove --force "$wt"; git -C /repo worktree prune' EXIT
cd "$wt" || exit 2
export GOFLAGS=-mod=mod GOPROXY=off GOSUMDB=off
git apply "$patch" || { echo "CONFIRM patch-does-not-apply"; exit 1; }
go build ./... || { echo "CONFIRM does-not-build"; exit 1; }
iso() { unshare -n -m sh -c "ip link set lo up 2>/dev/null; mount -t tmpfs tmpfs /tmp 2>/dev/null; mount -t tmpfs tmpfs /dev/shm 2>/dev/null; export GOTMPDIR=/root; $1"; }
suite=$(iso "cd $wt && go test -mod=mod -vet=off -count=1 -timeout 25m . 2>&1 | tail -3")
echo "suite-with-patch: $(echo "$suite" | tail -1)"
cp "$demo" "$wt/zz_demo_confirm_test.go"
with=$(iso "cd $wt && go test -mod=mod -vet=off -count=1 -timeout 10m -run '$rx' . 2>&1 | tail -4")
echo "demo-with-patch: $(echo "$with" | tail -1)"
git apply -R "$patch"
without=$(iso "cd $wt && go test -mod=mod -vet=off -count=1 -timeout 10m -run '$rx' . 2>&1 | tail -4")
echo "demo-without-patch: $(echo "$without" | tail -1)"
ok=1
echo "$suite" | tail -1 | grep -q "^ok" || ok=0
echo "$with" | tail -1 | grep -q "^FAIL" || ok=0
echo "$without" | tail -1 | grep -q "^ok" || ok=0
[ $ok = 1 ] && echo "CONFIRM ok" || echo "CONFIRM failed"
