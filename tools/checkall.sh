#!/bin/bash
# run every registered quick (or $1) check on the current tree; print one line per property
cd /verif
tier=${1:-quick}
for p in $(python3 -c "import sys; sys.path.insert(0,'/verif'); from props import PROPS; print(' '.join(sorted(PROPS)))"); do
  out=$(./check $p --tier $tier 2>&1); rc=$?
  echo "$p rc=$rc $(echo "$out" | grep -c '^KNOWN-FINDING') known | $(echo "$out" | grep "^$p $tier" | tail -1) $(echo "$out" | grep '^VIOLATION' | head -2 | tr '\n' ' ')"
done
