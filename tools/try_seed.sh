#!/bin/bash
# tools/try_seed.sh <patch.diff> <Cnn> [Cnn...] : apply a seeded change to /repo, run the quick checks, undo it.
# prints one line per check: property rc and the VIOLATION / KNOWN lines
set -u
patch="$1"; shift
cd /repo || exit 2
if [ -n "$(git status --porcelain)" ]; then echo "/repo not clean"; exit 2; fi
git apply "$patch" || { echo "patch does not apply"; exit 2; }
GOFLAGS=-mod=mod GOPROXY=off GOSUMDB=off go build ./... || { echo "does not build"; git checkout -- .; exit 2; }
cd /verif
# the evidence files must keep describing the unchanged tree: runs on a mutated tree write to a scratch copy and are undone
rm -rf /verif/.work/evidence_keep && cp -r /verif/evidence /verif/.work/evidence_keep
for p in "$@"; do
  out=$(timeout 3000 ./check "$p" --tier quick 2>&1)
  rc=$?
  echo "== $p rc=$rc"
  echo "$out" | grep -E "VIOLATION|^$p quick" | head -6
  for f in $(echo "$out" | grep -o "replay=[^ ]*" | cut -d= -f2 | head -2); do
    sed -n 2,5p "$f" | cut -c1-260
    grep -v "^#" "$f" | head -12 | tr '\n' ';'; echo
  done
done
git -C /repo checkout -- .
# the generated facts must describe the restored tree again
/verif/.work/bin/extract /repo /verif/go/extract/targets.txt /verif/lean/ShmVerif/Gen >/dev/null 2>&1
rm -rf /verif/replays
rm -rf /verif/evidence && mv /verif/.work/evidence_keep /verif/evidence
