#!/bin/bash
# tools/seed_matrix.sh: apply every kept seeded change in turn, run the quick check of its own property, record whether it is
# reported with a concrete replay; /repo is restored after each. Nothing else may run checks meanwhile.
cd /verif; mkdir -p .work/matrix; : > .work/matrix/summary.txt
for d in seeded/*/; do
  id=$(basename $d); prop=$(python3 -c "import json;print(json.load(open('$d/meta.json'))['property'])")
  tools/try_seed.sh /verif/$d/patch.diff $prop > .work/matrix/$id.txt 2>&1
  v=$(grep -c '^VIOLATION' .work/matrix/$id.txt); t=$(grep -c 'no-failing-input-found' .work/matrix/$id.txt)
  echo "$id $prop violations=$v tie-only=$t key=$(grep -m1 '# key' .work/matrix/$id.txt | cut -c7-60)" >> .work/matrix/summary.txt
done
git -C /repo status --short
cat .work/matrix/summary.txt
