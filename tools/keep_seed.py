#!/usr/bin/env python3
"""tools/keep_seed.py <worktree> <seed-id> <property> <detected: yes|tie-only|no> <checks,comma> <summary...>
copies OUT/patch.diff + demo + NOTES.md into /verif/seeded/<seed-id>/ and writes meta.json"""
import sys, os, shutil, json, glob
wt, sid, prop, det, checks = sys.argv[1:6]
summary = " ".join(sys.argv[6:])
dst = os.path.join("/verif/seeded", sid)
os.makedirs(dst, exist_ok=True)
out = os.path.join(wt, "OUT")
shutil.copy(os.path.join(out, "patch.diff"), os.path.join(dst, "patch.diff"))
for f in glob.glob(os.path.join(out, "**", "*"), recursive=True):
    if os.path.isfile(f) and not f.endswith("patch.diff") and os.path.getsize(f) < 200000 and "/." not in f.replace(out, ""):
        rel = os.path.relpath(f, out).replace("/", "__")
        if rel.endswith(".go"):
            rel += ".txt"   # keep demos out of any go tooling
        shutil.copy(f, os.path.join(dst, "demo__" + rel))
json.dump({"id": sid, "property": prop, "source": "sub-agent with only the property text and a scratch worktree",
           "summary": summary, "detected": det, "checks_run": checks.split(","),
           "apply": "git -C /repo apply /verif/seeded/%s/patch.diff ; undo: git -C /repo checkout -- ." % sid},
          open(os.path.join(dst, "meta.json"), "w"), indent=1)
print("kept", dst, os.listdir(dst))
