#!/usr/bin/env python3
"""print tie-1 skeleton theorems (expected = current /repo) for the given Gen.Skel names; to be reviewed and pasted
into ShmVerif/Tie/Cnn.lean by hand. Usage: tools/bless.py bufferList_pop bufferList_push ..."""
import json, sys
facts = json.load(open('/verif/lean/ShmVerif/Gen/facts.json'))
def q(s):
    return '"' + s.replace('\\', '\\\\').replace('"', '\\"').replace('\t', ' ') + '"'
for n in sys.argv[1:]:
    ls = facts['skeletons'][n]
    print("theorem tie_skel_%s : Gen.Skel.%s = [" % (n, n))
    print(",\n".join("  " + q(l) for l in ls) + "] := by rfl\n")
