#!/usr/bin/env python3
"""print tie-1 skeleton theorems (expected = current /repo) for the given Gen.Skel names; to be reviewed and pasted
into ShmVerif/Tie/Cnn.lean by hand. Usage: tools/bless.py bufferList_pop bufferList_push ..."""
import json, sys, subprocess
# always re-extract from the CURRENT /repo first (a stale Gen from a mutated tree must never be blessed)
subprocess.check_call(['/verif/.work/bin/extract', '/repo', '/verif/go/extract/targets.txt', '/verif/lean/ShmVerif/Gen'])
if subprocess.run(['git','-C','/repo','status','--porcelain'],capture_output=True,text=True).stdout.strip():
    sys.stderr.write('WARNING: /repo working tree is not clean\n')
facts = json.load(open('/verif/lean/ShmVerif/Gen/facts.json'))
def q(s):
    return '"' + s.replace('\\', '\\\\').replace('"', '\\"').replace('\t', ' ') + '"'
for n in sys.argv[1:]:
    ls = facts['skeletons'][n]
    print("theorem tie_skel_%s : Gen.Skel.%s = [" % (n, n))
    print(",\n".join("  " + q(l) for l in ls) + "] := by rfl\n")
