#!/bin/bash
# tools/seed_matrix_par.sh [workers] [seed-id-regex]: every kept seeded change against the quick check of its own property,
# <workers> at a time, each worker in a private copy of /verif and of /repo under /var/tmp (removed afterwards).
# A testing tool, not a registered check. Results: .work/matrix/summary.txt
N=${1:-6}; RX=${2:-.}
cd /verif; mkdir -p .work/matrix; : > .work/matrix/summary.txt
seeds=$(ls seeded | grep -E "$RX")
for k in $(seq 1 $N); do
  d=/var/tmp/mx_$k; rm -rf $d; mkdir -p $d
  rsync -a --exclude .git --exclude replays --exclude '.work/dbg' --exclude '.work/matrix' --exclude '.work/thorough' --exclude '.work/t17' /verif/ $d/verif/
  git clone -q /repo $d/repo
done
worker() {
  k=$1; shift
  d=/var/tmp/mx_$k
  for id in "$@"; do
    prop=$(python3 -c "import json;print(json.load(open('/verif/seeded/$id/meta.json'))['property'])")
    ( cd $d/repo && git checkout -q -- . && git apply /verif/seeded/$id/patch.diff ) || { echo "$id $prop PATCH-DOES-NOT-APPLY" >> /verif/.work/matrix/summary.txt; continue; }
    out=$(cd $d/verif && VERIF_REPO=$d/repo timeout 3000 ./check $prop --tier quick 2>&1)
    v=$(echo "$out" | grep -c '^VIOLATION'); t=$(echo "$out" | grep -c 'no-failing-input-found')
    f=$(echo "$out" | grep -o 'replay=[^ ]*' | head -1 | cut -d= -f2)
    key=$( [ -n "$f" ] && grep -m1 '# key' "$f" | cut -c7-70 )
    echo "$id $prop violations=$v tie-only=$t key=$key" >> /verif/.work/matrix/summary.txt
    ( cd $d/repo && git checkout -q -- . ); rm -rf $d/verif/replays
  done
}
i=0; declare -a buckets
for id in $seeds; do k=$(( i % N + 1 )); buckets[$k]="${buckets[$k]} $id"; i=$((i+1)); done
for k in $(seq 1 $N); do worker $k ${buckets[$k]} & done
wait
for k in $(seq 1 $N); do rm -rf /var/tmp/mx_$k; done
sort .work/matrix/summary.txt
