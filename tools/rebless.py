#!/usr/bin/env python3
"""re-generate, IN PLACE, the right-hand sides of every `theorem tie_skel… : Gen.Skel.<name> = [ … ] := by rfl`
in the given Tie files from the CURRENT (clean) /repo. Review `git diff` afterwards: every changed line must be
explained by a deliberate change of /repo (a fix: commit)."""
import json, re, subprocess, sys
subprocess.check_call(['/verif/.work/bin/extract', '/repo', '/verif/go/extract/targets.txt', '/verif/lean/ShmVerif/Gen'])
if subprocess.run(['git', '-C', '/repo', 'status', '--porcelain'], capture_output=True, text=True).stdout.strip():
    sys.exit('refusing: /repo working tree is not clean')
facts = json.load(open('/verif/lean/ShmVerif/Gen/facts.json'))
def q(s):
    return '"' + s.replace('\\', '\\\\').replace('"', '\\"').replace('\t', ' ') + '"'
pat = re.compile(r'(theorem\s+\S+\s*:\s*Gen\.Skel\.(\w+)\s*=\s*\[\n)(.*?)(\]\s*:=\s*by rfl)', re.S)
for path in sys.argv[1:]:
    src = open(path).read()
    def rep(m):
        ls = facts['skeletons'][m.group(2)]
        return m.group(1) + ",\n".join("  " + q(l) for l in ls) + m.group(4)
    new = pat.sub(rep, src)
    if new != src:
        open(path, 'w').write(new)
        print('updated', path)
