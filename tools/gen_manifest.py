#!/usr/bin/env python3
"""regenerate /verif/MANIFEST.json from props.py (checks) and tools/manifest_static.json (the rest)."""
import json, sys, os
sys.path.insert(0, '/verif')
from props import PROPS
st = json.load(open('/verif/tools/manifest_static.json'))
checks = []
for pid in sorted(PROPS):
    c = PROPS[pid]
    checks.append({
        "property_id": pid,
        "quick_cmd": "./check %s --tier quick" % pid,
        "thorough_cmd": "./check %s --tier thorough" % pid,
        "evidence_file": "evidence/%s.json" % pid,
        "replay_cmd_template": "./check %s --replay {path}" % pid,
        "engine": "lean-proofs",
        "level_claimed": {"category": c.get("level", "proof"), "text": c["claim"], "design_ref": c.get("design_ref", "DESIGN.md §5")},
        "level_note": c["note"],
        "technique": c["technique"],
    })
st["checks"] = checks
for e in st["engines"]:
    e["serves_properties"] = sorted(PROPS)
claimed = set(PROPS)
st["not_applicable"] = [x for x in st.get("not_applicable", []) if x["property_id"] not in claimed]
json.dump(st, open('/verif/MANIFEST.json', 'w'), indent=1)
print("MANIFEST.json:", len(checks), "checks;", len(st["not_applicable"]), "not_applicable")
