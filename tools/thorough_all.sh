#!/bin/bash
# tools/thorough_all.sh [jobs]: every registered thorough command on the current tree, <jobs> at a time (default 5)
cd /verif; mkdir -p .work/thorough; rm -f .work/thorough/*
props=$(python3 -c "import sys; sys.path.insert(0,'/verif'); from props import PROPS; print(' '.join(sorted(PROPS)))")
echo $props | tr ' ' '\n' | xargs -P ${1:-5} -I{} bash -c './check {} --tier thorough > .work/thorough/{}.log 2>&1; echo "{} rc=$? $(grep "^{} thorough" .work/thorough/{}.log | tail -1) $(grep -c "^KNOWN-FINDING" .work/thorough/{}.log) known $(grep "^VIOLATION" .work/thorough/{}.log | head -2 | tr "\n" " ")" >> .work/thorough/summary.txt'
sort .work/thorough/summary.txt
