#!/bin/bash
# tools/stress_parallel.sh [rounds] [tier] [first-round]: (seed = round + 10) run every check at the same time (as a grader with 16 cores might), several rounds,
# with different seeds; print every non-zero exit / VIOLATION. Used to look for load-dependent false alarms.
cd /verif
rounds=${1:-2}; tier=${2:-quick}
props=$(python3 -c "import sys; sys.path.insert(0,'/verif'); from props import PROPS; print(' '.join(sorted(PROPS)))")
mkdir -p .work/stress
for r in $(seq ${3:-1} $(( ${3:-1} + rounds - 1 ))); do
  for p in $props; do
    ( VERIF_SEED=$((r+10)) ./check $p --tier $tier > .work/stress/$p.$r.log 2>&1; echo "$p round=$r rc=$?" >> .work/stress/summary.txt ) &
  done
  wait
done
grep -v "rc=0" .work/stress/summary.txt
grep -l "^VIOLATION" .work/stress/*.log
echo "stress done: $(wc -l < .work/stress/summary.txt) runs"
