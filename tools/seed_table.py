#!/usr/bin/env python3
"""tools/seed_table.py <regex on seed id>: markdown table rows (seed | caught by | outcome) from seeded/*/meta.json"""
import json, glob, re, sys, os
rx = re.compile(sys.argv[1] if len(sys.argv) > 1 else ".")
print("| seed (`seeded/<id>`) | caught by (quick) | outcome at first / what was added |\n|---|---|---|")
for d in sorted(glob.glob("/verif/seeded/*/")):
    sid = os.path.basename(d.rstrip("/"))
    if not rx.search(sid):
        continue
    m = json.load(open(d + "meta.json"))
    s = m["summary"].replace("|", "/")
    s = re.sub(r"^round \d: ", "", s)
    print("| `%s` | %s | %s |" % (sid, ", ".join(m["checks_run"]), s))
